"""C05 - LL(k) decision: accept iff strong-LL(k), minimal lookahead, rejected grammars name a really
conflicting non-terminal (engine G, G-kdec: two-sentence conflict query over the transformed grammar)."""
import os, re, json, time, random
from lib.common import Run, tier, seed, sh, parol_bin
from engine_g import pipeline as P
from engine_g import kdec
from engine_g.par_reader import read_par
from checks import g_lang as GL

FUNCS = ["analysis::k_decision::{decidable,calculate_k_tuples,calculate_lookahead_dfas,explain_conflicts}",
         "analysis::k_tuples::KTuples::{k_concat,is_disjoint,intersection}", "analysis::first::first_k", "analysis::follow::follow_k",
         "bin/parol/tools/decidable.rs (observation of the rejected case)"]
MAX_PRODS = 36


def parse_decidable(out):
    """`parol decidable` output -> {nt: [(p, q), ...]}, listed undecidable non-terminals"""
    named, cur = {}, None
    for line in out.splitlines():
        m = re.match(r"Conflicts for non-terminal '([^']+)':", line.strip())
        if m:
            cur = m.group(1)
            named.setdefault(cur, [])
            continue
        m = re.match(r"Conflict in productions (\d+) and (\d+):", line.strip())
        if m and cur is not None:
            named[cur].append((int(m.group(1)), int(m.group(2))))
    listed = []
    m = re.search(r"(\d+) undecidable non-terminal\(s\):\s*\n([^\n]*)", out)
    if m:
        listed = [x for x in m.group(2).strip().split(",") if x]
    return named, listed


def one(task):
    t0 = time.time()
    K, N = task["k"], task["N"]
    r = dict(task, status="ok", findings=[], undecided=[], queries=0, solver_s=0.0, nontrivial=0, samples=[])

    def confirm_conflict(prods, start, A, k):
        try:
            return kdec.ref_conflicts(prods, start, A, k)
        except kdec.TooBig:
            return None

    try:
        if task["accepted"]:
            from engine_g.rs_tables import RsTables
            T = RsTables(task["parser"])
            if T.algorithm != "Llk":
                return dict(r, status="skip_lalr")
            if len(T.prods) > MAX_PRODS:
                return dict(r, status="skip_big")
            KD = kdec.KDec(T, N)
            for A, a in sorted(T.automata.items()):
                nprods = sum(1 for l, _ in T.prods if l == A)
                kA = a["k"]
                if kA > K:
                    r["findings"].append({"kind": "k_exceeds_limit", "nt": A, "detail": "automaton of %s declares k=%d above the limit K=%d" % (A, kA, K)})
                if nprods < 2:
                    if kA != 0:
                        r["findings"].append({"kind": "single_prod_k_nonzero", "nt": A, "detail": "%s has one production but k=%d" % (A, kA)})
                    continue
                if kA < 1:
                    r["findings"].append({"kind": "k_zero_with_alternatives", "nt": A, "detail": "%s has %d productions but k=0" % (A, nprods)})
                    continue
                # (a) accepted => no strong-LL(k_A) conflict
                c = KD.conflict(A, kA)
                if c["status"] == "sat":
                    ref = confirm_conflict(T.prods, T.start, A, kA)
                    if ref:
                        r["findings"].append({"kind": "not_strong_ll", "nt": A, "k": kA, "detail": "parol decides %s with k=%d, but productions %d and %d share the lookahead %s (sentences %s / %s, positions %d / %d)" % (
                            A, kA, c["p"], c["q"], c["lookahead"], c["u"], c["v"], c["i1"], c["i2"]), "witness": c})
                    else:
                        return dict(r, status="encoder_mismatch", error="conflict witness for %s at k=%d not confirmed by the reference sets" % (A, kA))
                elif c["status"] != "unsat":
                    return dict(r, status="solver_unknown", error="%s k=%d: %s" % (A, kA, c.get("reason")))
                # (b) minimality: a conflict must exist at k_A - 1
                if kA >= 2:
                    r["nontrivial"] += 1
                    c2 = KD.conflict(A, kA - 1)
                    if c2["status"] == "unsat":
                        ref = confirm_conflict(T.prods, T.start, A, kA - 1)
                        if ref == []:
                            r["findings"].append({"kind": "k_not_minimal", "nt": A, "k": kA,
                                                  "detail": "parol assigns k=%d to %s, but its productions have pairwise disjoint lookahead sets already at k=%d" % (kA, A, kA - 1)})
                        elif ref is None:
                            r["undecided"].append("%s: no conflict at k=%d among sentences <= %d; reference sets too large to confirm" % (A, kA - 1, N))
                        else:
                            r["undecided"].append("%s: conflict at k=%d exists %r but needs sentences longer than %d" % (A, kA - 1, ref[0], N))
                    elif c2["status"] != "sat":
                        return dict(r, status="solver_unknown", error="%s k=%d: %s" % (A, kA - 1, c2.get("reason")))
                    elif len(r["samples"]) < 2:
                        r["samples"].append({"nt": A, "assigned_k": kA, "conflict_at_k_minus_1": {x: c2[x] for x in ("p", "q", "u", "v", "lookahead")}})
            r["max_k"] = max([a["k"] for a in T.automata.values()] + [0])
        else:
            g = read_par(task["e"])
            if g.is_lalr():
                return dict(r, status="skip_lalr")
            if len(g.bnf) > MAX_PRODS:
                return dict(r, status="skip_big")
            rc, out = sh([task["parol"], "decidable", "-f", task["e"], "-k", str(K)], timeout=120)
            if rc != 0:
                return dict(r, status="decidable_failed", error=out[-300:])
            named, listed = parse_decidable(out)
            if not named or not listed:
                r["findings"].append({"kind": "rejected_without_named_nt", "nt": "-", "detail": "parol rejects with 'Maximum lookahead of %d exceeded' but `parol decidable` names no conflicting non-terminal" % K})
                return r
            T = kdec.PlainTables(g)
            KD = kdec.KDec(T, N)
            r["nontrivial"] += 1
            for A, pairs in sorted(named.items()):
                lhs_ok = all(p < len(T.prods) and q < len(T.prods) and T.prods[p][0] == A and T.prods[q][0] == A for p, q in pairs)
                if not lhs_ok or not pairs:
                    r["findings"].append({"kind": "named_pair_not_of_nt", "nt": A, "detail": "conflict report for %s names productions %r that are not two productions of %s" % (A, pairs, A)})
                    continue
                for (p, q) in pairs:
                    c = KD.conflict(A, K, pairs=[(p, q)])
                    if c["status"] == "unsat":
                        try:
                            la = kdec.ref_lookahead(T.prods, T.start, K)
                            common = la[p] & la[q]
                        except kdec.TooBig:
                            common = None
                        if common is not None and not common:
                            r["findings"].append({"kind": "named_nt_no_conflict", "nt": A, "k": K,
                                                  "detail": "parol names %s (productions %d and %d) as undecidable at K=%d, but their lookahead sets are disjoint" % (A, p, q, K)})
                        else:
                            r["undecided"].append("%s: named pair (%d,%d) has no witness among sentences <= %d (%s)" % (A, p, q, N, "reference too large" if common is None else "longer sentences needed"))
                    elif c["status"] != "sat":
                        return dict(r, status="solver_unknown", error="%s K=%d: %s" % (A, K, c.get("reason")))
                    elif len(r["samples"]) < 2:
                        r["samples"].append({"rejected_at_K": K, "named_nt": A, "pair": [p, q], "overlap_witness": {x: c[x] for x in ("u", "v", "lookahead")}})
            # non-terminals NOT named must be conflict-free at K (else the rejection message is incomplete / decision inconsistent)
            for A in sorted(set(l for l, _ in T.prods) - set(named)):
                if sum(1 for l, _ in T.prods if l == A) < 2:
                    continue
                c = KD.conflict(A, K)
                if c["status"] == "sat":
                    ref = confirm_conflict(T.prods, T.start, A, K)
                    if ref:
                        r["findings"].append({"kind": "unnamed_nt_conflicts", "nt": A, "k": K,
                                              "detail": "%s is reported decidable at K=%d, but productions %d and %d share the lookahead %s" % (A, K, c["p"], c["q"], c["lookahead"]), "witness": c})
                    else:
                        return dict(r, status="encoder_mismatch", error="conflict witness for %s at K=%d not confirmed by the reference sets" % (A, K))
        r["queries"] = KD.queries
        r["solver_s"] = round(KD.solver_s, 2)
    except RuntimeError as e:
        return dict(r, status="cyclic", error=str(e)[:200])
    r["wall_s"] = round(time.time() - t0, 2)
    return r


def run_pool(tasks, jobs=14, per_task_timeout=600, one_fn=None):
    import multiprocessing as mp
    out = [None] * len(tasks)
    ctx = mp.get_context("fork")
    with ctx.Pool(processes=jobs, maxtasksperchild=20) as pool:
        handles = [pool.apply_async(one_fn or one, (t,)) for t in tasks]
        deadline = time.time() + per_task_timeout + 60 * (1 + len(tasks) // max(1, jobs))
        for i, h in enumerate(handles):
            try:
                out[i] = h.get(timeout=max(5, min(per_task_timeout, deadline - time.time())))
            except Exception as e:
                out[i] = dict(tasks[i], status="worker_failed", error="%s: %s" % (type(e).__name__, str(e)[:200]))
        pool.terminate()
    return out


def make_tasks(files, ks, N):
    parol = parol_bin()
    tasks, skipped = [], []
    for k in ks:
        for a in GL.generate(files, k=k, want_parser=True):
            if a["rc"] == 0 and a.get("parser"):
                if os.path.getsize(a["parser"]) > 300000:
                    skipped.append({"grammar": a["grammar"], "k": k, "why": "large grammar"})
                    continue
                tasks.append({"grammar": a["grammar"], "k": k, "N": N, "accepted": True, "parser": a["parser"], "e": a.get("e"), "parol": parol})
            elif "Maximum lookahead of" in (a.get("out") or "") and a.get("e"):
                tasks.append({"grammar": a["grammar"], "k": k, "N": N, "accepted": False, "e": a["e"], "parol": parol})
            else:
                skipped.append({"grammar": a["grammar"], "k": k, "why": "rejected for another reason (rc=%s)" % a["rc"]})
    return tasks, skipped


def main():
    run = Run("C05", "translation_validation")
    N = 8 if tier() == "quick" else 10
    ks = [1, 2, 3] if tier() == "quick" else [1, 2, 3, 4, 5]
    files = GL.select(P.corpus())
    files = [f for f in files if not read_par(f).is_lalr()]
    random.Random(seed()).shuffle(files)
    if tier() != "quick":
        files = [f for f in files if "/gen/gram/" not in f] + [f for f in files if "/gen/gram/" in f][:600]
    tasks, skipped = make_tasks(files, ks, N)
    res = run_pool(tasks)
    programs = accepted = rejected = queries = nontrivial = disagreements = 0
    tsolver = 0.0
    samples, undecided = [], []
    for r in res:
        if r["status"] in ("skip_lalr", "skip_big"):
            skipped.append({"grammar": r["grammar"], "k": r["k"], "why": r["status"]})
            continue
        if r["status"] != "ok":
            run.inconc("%s (K=%d): %s %s" % (r["grammar"], r["k"], r["status"], r.get("error", "")))
            continue
        programs += 1
        accepted += 1 if r["accepted"] else 0
        rejected += 0 if r["accepted"] else 1
        queries += r["queries"]
        tsolver += r["solver_s"]
        nontrivial += r["nontrivial"]
        undecided += ["%s (K=%d): %s" % (os.path.basename(r["grammar"]), r["k"], u) for u in r["undecided"]]
        for s in r["samples"]:
            if len(samples) < 8:
                samples.append(dict(s, grammar=r["grammar"], K=r["k"]))
        for f in r["findings"]:
            disagreements += 1
            run.violation("%s (K=%d, %s): %s" % (r["grammar"], r["k"], "accepted" if r["accepted"] else "rejected", f["detail"]),
                          {"grammar": r["grammar"], "k": r["k"], "N": r["N"], "kind": f["kind"], "nt": f["nt"]})
    run.cov.update({
        "programs": programs, "disagreements_checked": disagreements,
        "samples": samples or [{"note": "no grammar needed k >= 2 or was rejected"}],
        "accepted_grammar_runs": accepted, "rejected_grammar_runs": rejected, "nontrivial_decisions": nontrivial,
        "bound_N_tokens": N, "lookahead_limits": ks, "grammars": len(files), "skipped_count": len(skipped), "skipped": skipped[:20],
        "queries_discharged": queries, "solver": "z3 %s" % __import__("z3").get_version_string(), "solver_time_s": round(tsolver, 2),
        "undecided_within_N": undecided[:20], "undecided_within_N_count": len(undecided),
        "functions_in_loop": FUNCS,
        "explanation": "per LL grammar and lookahead limit K the real parol is run; accepted: for every non-terminal with alternatives and assigned k_A (read from the generated "
                       "LOOKAHEAD_AUTOMATA) the query 'two sentences <= N apply two different productions of A under the same k_A upcoming tokens' must be unsat and, for k_A >= 2, "
                       "the same query at k_A-1 must be sat (minimal k); k_A <= K; single-production non-terminals have k=0.  rejected ('Maximum lookahead exceeded'): `parol decidable` "
                       "on the transformed grammar must name at least one non-terminal, every named production pair must have a sat overlap witness at K, every non-terminal not named must be conflict-free at K.",
    })
    run.assume("bounded: conflict witnesses are pairs of sentences of length <= %d; grammars with more than %d productions are skipped; programs quantifier = stated corpus x limits %s" % (N, MAX_PRODS, ks),
               "an 'unsat' in a direction that requires a conflict (minimality, named non-terminal) raises an alarm only if the exact reference FIRST_k/FOLLOW_k sets confirm that no conflict exists at all; "
               "otherwise it is listed as undecided within N",
               "trusted: G-kdec encoder (shares bounded derivability with G-tab; every alarm is confirmed by an independent set fix-point), par_reader, z3")
    return run


def check_main():
    return main().finish()


def replay(path):
    obj = json.load(open(path))["replay"]
    tasks, _ = make_tasks([obj["grammar"]], [obj["k"]], obj.get("N", 8))
    for t in tasks:
        r = one(t)
        print(json.dumps({k: r.get(k) for k in ("status", "findings", "undecided")}, indent=1, default=str))
        if any(f["kind"] == obj["kind"] and f["nt"] == obj["nt"] for f in r.get("findings", [])):
            return 1
    return 0
