"""C34 - parol and its language server accept the same grammar texts (engine G).

Artifacts: crates/parol/src/parser/parol.par and crates/parol-ls/parol_ls.par (both parsers are
generated from these files - parol-ls at every build - so the grammars are the code).  z3 decides
for ALL token strings up to N over the shared vocabulary whether the two grammars derive the same
strings; a witness is rendered to text and replayed on parol's real grammar parser
(parol::parser::parse) and on the parser generated from parol_ls.par with the language server's
generator options.
"""
import os, json, re
from lib.common import Run, BUILD, REPO, VERIF, tier, seed
from lib import genparser as GP
from engine_g.par_reader import read_par
from engine_g import pipeline as P, cfg_sat as C
from checks.c15 import ask_driver
from checks import g_lang as GL

PAROL = os.path.join(REPO, "crates/parol/src/parser/parol.par")
LS = os.path.join(REPO, "crates/parol-ls/parol_ls.par")
META = set("\\.+*?()|[]{}^$#&-~")


def expand(key):
    kind, text, la = key
    if kind != "raw":
        return (text, la)
    out, i = [], 0
    while i < len(text):
        ch = text[i]
        m = re.match(r"\\u\{[0-9a-fA-F]+\}", text[i:])
        if m:
            out.append(m.group(0))
            i += len(m.group(0))
            continue
        out.append("\\" + ch if ch in META else ch)
        i += 1
    return ("".join(out), la)


LEXEME = {
    r'"(\\.|[^"])*"': '"s"', r"'(\\.|[^'])*'": "'r'", r"/(\\.|[^\/])*/": "/x/", r"[a-zA-Z_][a-zA-Z0-9_]*": "Idf",
}


def lexeme(pattern):
    if pattern in LEXEME:
        return LEXEME[pattern]
    out, i = [], 0
    while i < len(pattern):
        if pattern[i] == "\\" and i + 1 < len(pattern):
            out.append(pattern[i + 1])
            i += 2
        elif pattern[i] in META:
            return None
        else:
            out.append(pattern[i])
            i += 1
    return "".join(out)


def main():
    run = Run("C34", "translation_validation")
    N = 12 if tier() == "quick" else 16
    ga, gb = read_par(PAROL), read_par(LS)
    # vocabulary by expanded pattern (raw '%start' and regex "%start" denote the same token)
    order = []
    for g in (ga, gb):
        for k in g.term_order:
            e = expand(k)
            if e not in order:
                order.append(e)
    vocab_e = {e: i + 1 for i, e in enumerate(order)}

    def remap(g):
        return [(l, [("T", expand(s[1])) if s[0] == "T" else s for s in r]) for l, r in g.bnf]

    pa, pb = remap(ga), remap(gb)
    only_a = sorted(set(expand(k) for k in ga.term_order) - set(expand(k) for k in gb.term_order))
    only_b = sorted(set(expand(k) for k in gb.term_order) - set(expand(k) for k in ga.term_order))
    ok, info = GL.validate_encoder([os.path.join(VERIF, "grammars", f) for f in sorted(os.listdir(os.path.join(VERIF, "grammars")))])
    if not ok:
        run.inconc("encoder self-validation failed: %s" % info)
    cross = {"tag": "c34"}
    st, wit, dt = P.lang_diff(pa, ga.start, pb, gb.start, vocab_e, N, timeout_ms=900000, cross=cross)
    if cross.get("agree") is False:
        run.inconc("solvers disagree on the C34 query: %s" % cross)
    inv = {v: k for k, v in vocab_e.items()}
    sample = {"N": N, "terminals": len(vocab_e), "productions_parol": len(pa), "productions_parol_ls": len(pb), "verdict": st, "solver_s": round(dt, 2),
              "second_opinion": {k: v for k, v in cross.items() if k != "tag"}, "terminals_only_in_parol": [str(x) for x in only_a], "terminals_only_in_parol_ls": [str(x) for x in only_b]}
    disagreements = 0
    if st == "sat":
        disagreements = 1
        toks = [inv[t] for t in wit]
        ina = C.derives_brute(pa, ga.start, vocab_e, wit) if wit else (ga.start in C.NormalForm(pa).nullable)
        inb = C.derives_brute(pb, gb.start, vocab_e, wit) if wit else (gb.start in C.NormalForm(pb).nullable)
        lex = [lexeme(t[0]) for t in toks]
        sample.update(witness=[t[0] for t in toks], in_parol=ina, in_parol_ls=inb)
        if ina == inb:
            run.inconc("solver witness not confirmed by CYK (encoder defect): %s" % [t[0] for t in toks])
        elif any(x is None for x in lex):
            run.inconc("witness %s cannot be rendered to text (no lexeme for a terminal); artifact-level difference: in parol.par=%s, in parol_ls.par=%s" % ([t[0] for t in toks], ina, inb))
        else:
            text = " ".join(lex) + "\n"
            consts, resp = ask_driver([{"id": 0, "parse_text": text}])
            pr = resp.get(0, {})
            binp, binfo = GP.build_parser(LS, options=("-x", "-b", "--max-parsing-depth", "1500"))
            ls = GP.run_parser(binp, text) if binp else {"accepted": None, "raw": binfo}
            parol_syntax_ok = pr.get("parse") in ("ok", "other_error")
            ls_syntax_ok = ls["accepted"] is True
            sample.update(text=text, parol_parse=pr.get("parse"), parol_ls_accepts=ls["accepted"])
            what = ("token string [%s] (text %r) is %s L(parol.par) and %s L(parol_ls.par); natively parol's parser: %s, parser generated from parol_ls.par: %s" % (
                " ".join(t[0] for t in toks), text, "in" if ina else "not in", "in" if inb else "not in", pr.get("parse"), "accepts" if ls_syntax_ok else "syntax error"))
            if pr.get("parse") is None or ls["accepted"] is None:
                run.inconc("native replay unavailable: " + what)
            elif parol_syntax_ok != ls_syntax_ok:
                run.violation(what, {"witness": wit, "text": text, "N": N})
            else:
                run.inconc("grammars differ on a token string but the two real parsers agree on its text rendering (tokenisation differs from the token model): " + what)
    elif st != "unsat":
        run.inconc("solver: %s %s" % (st, wit))
    run.cov.update({
        "programs": 2, "disagreements_checked": disagreements, "samples": [sample], "bound_N_tokens": N,
        "queries_discharged": 1, "solver": "z3 %s" % __import__("z3").get_version_string(), "solver_time_s": round(dt, 2),
        "explanation": "exists a token string of length <= N over the shared PAR token vocabulary (|T|^N strings) that exactly one of the two grammars derives? unsat = the two grammar parsers report syntax errors on the same token strings up to N",
    })
    run.assume("bounded: token strings of length <= %d; differences that arise only from scanner-state dependent tokenisation are outside the claim" % N,
               "trusted: PAR reader + CFG->SAT encoder (self-validated), z3; terminals identified by their expanded pattern")
    return run.finish()


def replay(path):
    obj = json.load(open(path))["replay"]
    consts, resp = ask_driver([{"id": 0, "parse_text": obj["text"]}])
    binp, binfo = GP.build_parser(LS, options=("-x", "-b", "--max-parsing-depth", "1500"))
    ls = GP.run_parser(binp, obj["text"])
    print(resp.get(0), ls["accepted"])
    return 1 if (resp[0].get("parse") in ("ok", "other_error")) != (ls["accepted"] is True) else 0
