"""C16 - unmatched input is an error unless explicitly allowed (engine R + native replay).

For every scanner configuration of a stated family the real generate_build_information is called
natively; z3's regex theory decides over ALL non-empty strings whether some input has NO terminal
of the mode matching any non-empty prefix (such input becomes an unmatched gap that the runtime
turns into a skipped token).  Without %allow_unmatched that must be impossible (the catch-all
terminal then turns every stray character into the Error token, which no table accepts - C01's
foreign-token case); with %allow_unmatched the mode must contain no catch-all terminal.
"""
import os, json, itertools, time
import z3
from lib.common import Run, BUILD, REPO, VERIF, tier, seed, known_for, log
from lib import genparser as GP
from engine_r import rx as RX
from checks.c15 import ask_driver

TERMINAL_SETS = {
    "single": 'S: "a";',
    "two": 'S: "a" { "b" };',
    "ident_num": 'S: /[a-z]+/ { "," /[0-9]+/ };',
    "with_newline_terminal": 'S: "a" { /\\r?\\n/ "a" };',
}


def grammar_text(cfg):
    lines = ["%start S", '%title "c16"', '%comment "c16"']
    if cfg["line"]:
        lines.append("%line_comment '//'")
    if cfg["block"]:
        lines.append("%block_comment '(*' '*)'")
    if not cfg["auto_newline"]:
        lines.append("%auto_newline_off")
    if not cfg["auto_ws"]:
        lines.append("%auto_ws_off")
    if cfg["allow_unmatched"]:
        lines.append("%allow_unmatched")
    lines += ["%%", TERMINAL_SETS[cfg["terms"]]]
    return "\n".join(lines) + "\n"


def configs():
    out = []
    for an, aw, au, cm, ts in itertools.product([True, False], [True, False], [False, True], ["none", "line", "block"], sorted(TERMINAL_SETS)):
        if tier() == "quick" and ts not in ("single", "with_newline_terminal", "ident_num"):
            continue
        out.append({"auto_newline": an, "auto_ws": aw, "allow_unmatched": au, "line": cm == "line", "block": cm == "block", "terms": ts})
    return out


def gap_query(terminals):
    """exists non-empty x such that no terminal matches a non-empty prefix of x"""
    covered = []
    approx = False
    for rxs, idx, la, name in terminals:
        r = RX.Rx(rxs)
        approx = approx or r.approx
        nonempty = z3.Intersect(r.re, z3.Plus(RX.ANY))
        covered.append(z3.Concat(nonempty, RX.ANYSTAR))
    U = z3.Union(*covered) if len(covered) > 1 else covered[0]
    st, w = RX.solve_member(lambda x: [z3.InRe(x, z3.Plus(RX.ANY)), z3.Not(z3.InRe(x, U))], timeout_ms=60000)
    return st, (RX.z3_unescape(w) if st == "sat" else w), approx


def main():
    run = Run("C16", "translation_validation")
    cfgs = configs()
    reqs = []
    for i, c in enumerate(cfgs):
        reqs.append({"id": i, "grammar": "%start S %% " + TERMINAL_SETS[c["terms"]], "auto_newline": c["auto_newline"], "auto_ws": c["auto_ws"],
                     "allow_unmatched": c["allow_unmatched"], "line": [["raw", "//"]] if c["line"] else [], "block": [["raw", "(*", "raw", "*)"]] if c["block"] else []})
    consts, resp = ask_driver(reqs)
    known = {f["key"]: f for f in known_for("C16")}
    programs = disagreements = queries = 0
    samples = []
    tsolver = 0.0
    replay_cache = {}
    known_seen = {}
    for i, c in enumerate(cfgs):
        r = resp.get(i)
        if not r or not r.get("ok"):
            run.inconc("driver failed for %s: %s" % (c, (r or {}).get("error")))
            continue
        terms = r["terminals"]
        t0 = time.time()
        try:
            st, w, approx = gap_query(terms)
        except RX.RxError as ex:
            run.inconc("translator: %s" % ex)
            continue
        tsolver += time.time() - t0
        queries += 1
        programs += 1
        has_catch_all = any(t[3] == "Error" for t in terms)
        desc = {k: c[k] for k in ("auto_newline", "auto_ws", "allow_unmatched", "line", "block", "terms")}
        if len(samples) < 6:
            samples.append({"config": desc, "terminals": [t[0] for t in terms], "gap_query": st, "witness": w if st == "sat" else None})
        if c["allow_unmatched"]:
            if has_catch_all:
                disagreements += 1
                run.violation("allow_unmatched mode still contains the catch-all Error terminal: %s" % desc, {"config": c, "kind": "catch-all-present"})
            continue
        if st == "unsat":
            continue
        if st != "sat":
            run.inconc("gap query %s for %s" % (st, desc))
            continue
        disagreements += 1
        # native replay: a valid sentence followed by the unmatched text must be rejected
        gkey = json.dumps(c, sort_keys=True)
        gpath = os.path.join(BUILD, "gen", "c16_%d.par" % i)
        os.makedirs(os.path.dirname(gpath), exist_ok=True)
        open(gpath, "w").write(grammar_text(c))
        binp, info = GP.build_parser(gpath)
        if not binp:
            run.inconc("cannot build generated parser for %s: %s" % (desc, info[-300:]))
            continue
        sentence = {"single": "a", "two": "a", "ident_num": "x", "with_newline_terminal": "a"}[c["terms"]]
        base = GP.run_parser(binp, sentence)
        res = GP.run_parser(binp, sentence + w)
        reproduced = base["accepted"] is True and res["accepted"] is True
        what = ("scanner mode without %%allow_unmatched (%s): no terminal matches any prefix of %r; natively the generated parser %s the input %r" % (
            desc, w, "ACCEPTS" if res["accepted"] is True else "rejects", sentence + w))
        if not reproduced:
            run.inconc("gap witness not reproduced natively: " + what)
            continue
        cls = "catch-all-misses-line-feed" if (w[0] == "\n" and not c["auto_newline"]) else None
        if cls and cls in known:
            known_seen.setdefault(cls, []).append(desc)
        else:
            run.violation(what, {"config": c, "witness": w, "kind": "gap", "grammar": grammar_text(c), "input": sentence + w})
    for cls, lst in known_seen.items():
        run.known("%s [%d configurations reproduced natively in this run]" % (known[cls]["what"], len(lst)))
    run.cov.update({
        "programs": programs, "disagreements_checked": disagreements, "samples": samples, "configurations": len(cfgs),
        "queries_discharged": queries, "solver": "z3 %s (regex theory, all strings over z3's character sort U+0000..U+2FFFF)" % z3.get_version_string(),
        "solver_time_s": round(tsolver, 2), "runtime_constants": consts,
        "functions_in_loop": ["generators::scanner_config::ScannerConfig::generate_build_information", "parol_runtime::lexer::{ERROR_TOKEN,NEW_LINE_TOKEN,WHITESPACE_TOKEN}"],
        "explanation": "per configuration: exists non-empty string none of whose non-empty prefixes is matched by any terminal of the mode? unsat required without allow_unmatched; witnesses replayed on the natively built generated parser (sentence + witness must be rejected)",
    })
    run.assume("configuration family: auto_newline x auto_ws x allow_unmatched x {no comments, line //, block (* *)} x terminal sets %s" % sorted(TERMINAL_SETS),
               "characters above U+2FFFF are outside z3's character sort and outside the claim",
               "the step 'Error token => parse fails' is C01's foreign-token case; 'gap token is kept in the tree' for allow_unmatched is covered by C14's buffer kernel")
    return run.finish()


def replay(path):
    obj = json.load(open(path))["replay"]
    gpath = os.path.join(BUILD, "gen", "c16_replay.par")
    os.makedirs(os.path.dirname(gpath), exist_ok=True)
    open(gpath, "w").write(obj["grammar"])
    binp, info = GP.build_parser(gpath)
    res = GP.run_parser(binp, obj["input"])
    print(res["accepted"], res["raw"][-300:])
    return 1 if res["accepted"] is True else 0
