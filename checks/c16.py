"""C16 - unmatched input is an error unless explicitly allowed (engine R + native replay).

For every scanner configuration of a stated family the real generate_build_information is called
natively; z3's regex theory decides over ALL non-empty strings whether some input has NO terminal
of the mode matching any non-empty prefix (such input becomes an unmatched gap that the runtime
turns into a skipped token).  Without %allow_unmatched that must be impossible (the catch-all
terminal then turns every stray character into the Error token, which no table accepts - C01's
foreign-token case); with %allow_unmatched the mode must contain no catch-all terminal.
"""
import os, json, itertools, time
import z3
from lib.common import Run, BUILD, REPO, VERIF, tier, seed, known_for, log
from lib import genparser as GP
from engine_r import rx as RX
from checks.c15 import ask_driver

TERMINAL_SETS = {
    "single": 'S: "a";',
    "two": 'S: "a" { "b" };',
    "ident_num": 'S: /[a-z]+/ { "," /[0-9]+/ };',
    "with_newline_terminal": 'S: "a" { /\\r?\\n/ "a" };',
}


def grammar_text(cfg):
    lines = ["%start S", '%title "c16"', '%comment "c16"']
    if cfg["line"]:
        lines.append("%line_comment '//'")
    if cfg["block"]:
        lines.append("%block_comment '(*' '*)'")
    if not cfg["auto_newline"]:
        lines.append("%auto_newline_off")
    if not cfg["auto_ws"]:
        lines.append("%auto_ws_off")
    if cfg["allow_unmatched"]:
        lines.append("%allow_unmatched")
    lines += ["%%", TERMINAL_SETS[cfg["terms"]]]
    return "\n".join(lines) + "\n"


def configs():
    out = []
    for an, aw, au, cm, ts in itertools.product([True, False], [True, False], [False, True], ["none", "line", "block"], sorted(TERMINAL_SETS)):
        if tier() == "quick" and ts not in ("single", "with_newline_terminal", "ident_num"):
            continue
        out.append({"auto_newline": an, "auto_ws": aw, "allow_unmatched": au, "line": cm == "line", "block": cm == "block", "terms": ts})
    return out


def gap_query(terminals):
    """exists non-empty x such that no terminal matches a non-empty prefix of x"""
    covered = []
    approx = False
    for rxs, idx, la, name in terminals:
        r = RX.Rx(rxs)
        approx = approx or r.approx
        nonempty = z3.Intersect(r.re, z3.Plus(RX.ANY))
        covered.append(z3.Concat(nonempty, RX.ANYSTAR))
    U = z3.Union(*covered) if len(covered) > 1 else covered[0]
    st, w = RX.solve_member(lambda x: [z3.InRe(x, z3.Plus(RX.ANY)), z3.Not(z3.InRe(x, U))], timeout_ms=60000)
    return st, (RX.z3_unescape(w) if st == "sat" else w), approx


def ms_grammar(flags0, flags1):
    """flags = (auto_newline, auto_ws, allow_unmatched) for INITIAL and for the extra state Inner"""
    def dirs(f, indent=""):
        out = []
        if not f[0]:
            out.append(indent + "%auto_newline_off")
        if not f[1]:
            out.append(indent + "%auto_ws_off")
        if f[2]:
            out.append(indent + "%allow_unmatched")
        return out
    lines = ["%start S", '%title "c16ms"', '%comment "c16ms"'] + dirs(flags0) + ["%on Open %enter Inner", "%scanner Inner {"] + dirs(flags1, "    ") + \
            ["    %on Close %enter INITIAL", "}", "%%", "S: { Item };", "Item: Word | Open InnerWord Close;", 'Word: "a";', "Open: '[';",
             'InnerWord: <Inner>"b";', "Close: <Inner>']';"]
    return "\n".join(lines) + "\n"


def multi_state_leg(run, known, known_seen):
    combos = list(itertools.product([True, False], [True, False], [False, True]))
    cases = [(f0, f1) for f0 in combos for f1 in combos]
    if tier() == "quick":
        import random
        rnd = random.Random(seed())
        rnd.shuffle(cases)
        cases = [((True, True, False), c) for c in combos] + [(c, (True, True, False)) for c in combos] + cases[:12]
    reqs = [{"id": i, "grammar_full": ms_grammar(f0, f1)} for i, (f0, f1) in enumerate(cases)]
    consts, resp = ask_driver(reqs)
    programs = dis = 0
    for i, (f0, f1) in enumerate(cases):
        r = resp.get(i)
        if not r or not r.get("ok"):
            run.inconc("driver failed for multi-state grammar %s/%s: %s" % (f0, f1, (r or {}).get("error", "")[:200]))
            continue
        programs += 1
        for st in r["states"]:
            flags = f0 if st["name"] == "INITIAL" else f1
            terms = st["terminals"]
            has_catch_all = any(t[3] == "Error" for t in terms)
            desc = "state %s (auto_newline=%s, auto_ws=%s, allow_unmatched=%s) of a two-state grammar" % (st["name"], flags[0], flags[1], flags[2])
            problem = None
            if flags[2] and has_catch_all:
                problem = ("catch-all-in-allow-unmatched-state", "%s still contains the catch-all Error terminal" % desc, "?")
            elif not flags[2]:
                try:
                    stq, w, approx = gap_query(terms)
                except RX.RxError as ex:
                    run.inconc("translator: %s" % ex)
                    continue
                if stq == "sat":
                    problem = ("gap", "%s: no terminal matches any prefix of %r" % (desc, w), w)
                elif stq != "unsat":
                    run.inconc("gap query %s for %s" % (stq, desc))
            if not problem:
                continue
            dis += 1
            # native replay on the generated parser: unmatched text inside the state
            gpath = os.path.join(BUILD, "gen", "c16ms_%d.par" % i)
            os.makedirs(os.path.dirname(gpath), exist_ok=True)
            open(gpath, "w").write(ms_grammar(f0, f1))
            binp, info = GP.build_parser(gpath)
            if not binp:
                run.inconc("cannot build generated parser for %s: %s" % (desc, info[-300:]))
                continue
            w = problem[2]
            text = ("a" + w + "a") if st["name"] == "INITIAL" else ("a[b" + w + "]a")
            base = GP.run_parser(binp, "a[b]a")
            res = GP.run_parser(binp, text)
            expect_accept = flags[2]
            reproduced = base["accepted"] is True and (res["accepted"] is True) != expect_accept
            what = "%s; natively the generated parser %s %r (must %s)" % (problem[1], "accepts" if res["accepted"] is True else "rejects", text, "accept and keep the text" if expect_accept else "reject")
            if reproduced:
                run.violation(what, {"kind": problem[0], "grammar": ms_grammar(f0, f1), "input": text, "expect_accept": expect_accept})
            else:
                run.inconc("multi-state witness not reproduced natively: " + what)
    return programs, dis


def main():
    run = Run("C16", "translation_validation")
    cfgs = configs()
    reqs = []
    for i, c in enumerate(cfgs):
        reqs.append({"id": i, "grammar": "%start S %% " + TERMINAL_SETS[c["terms"]], "auto_newline": c["auto_newline"], "auto_ws": c["auto_ws"],
                     "allow_unmatched": c["allow_unmatched"], "line": [["raw", "//"]] if c["line"] else [], "block": [["raw", "(*", "raw", "*)"]] if c["block"] else []})
    consts, resp = ask_driver(reqs)
    known = {f["key"]: f for f in known_for("C16")}
    programs = disagreements = queries = 0
    samples = []
    tsolver = 0.0
    replay_cache = {}
    known_seen = {}
    for i, c in enumerate(cfgs):
        r = resp.get(i)
        if not r or not r.get("ok"):
            run.inconc("driver failed for %s: %s" % (c, (r or {}).get("error")))
            continue
        terms = r["terminals"]
        t0 = time.time()
        try:
            st, w, approx = gap_query(terms)
        except RX.RxError as ex:
            run.inconc("translator: %s" % ex)
            continue
        tsolver += time.time() - t0
        queries += 1
        programs += 1
        has_catch_all = any(t[3] == "Error" for t in terms)
        desc = {k: c[k] for k in ("auto_newline", "auto_ws", "allow_unmatched", "line", "block", "terms")}
        if len(samples) < 6:
            samples.append({"config": desc, "terminals": [t[0] for t in terms], "gap_query": st, "witness": w if st == "sat" else None})
        if c["allow_unmatched"]:
            if has_catch_all:
                disagreements += 1
                run.violation("allow_unmatched mode still contains the catch-all Error terminal: %s" % desc, {"config": c, "kind": "catch-all-present"})
            continue
        if st == "unsat":
            continue
        if st != "sat":
            run.inconc("gap query %s for %s" % (st, desc))
            continue
        disagreements += 1
        # native replay: a valid sentence followed by the unmatched text must be rejected
        gkey = json.dumps(c, sort_keys=True)
        gpath = os.path.join(BUILD, "gen", "c16_%d.par" % i)
        os.makedirs(os.path.dirname(gpath), exist_ok=True)
        open(gpath, "w").write(grammar_text(c))
        binp, info = GP.build_parser(gpath)
        if not binp:
            run.inconc("cannot build generated parser for %s: %s" % (desc, info[-300:]))
            continue
        sentence = {"single": "a", "two": "a", "ident_num": "x", "with_newline_terminal": "a"}[c["terms"]]
        base = GP.run_parser(binp, sentence)
        res = GP.run_parser(binp, sentence + w)
        reproduced = base["accepted"] is True and res["accepted"] is True
        what = ("scanner mode without %%allow_unmatched (%s): no terminal matches any prefix of %r; natively the generated parser %s the input %r" % (
            desc, w, "ACCEPTS" if res["accepted"] is True else "rejects", sentence + w))
        if not reproduced:
            run.inconc("gap witness not reproduced natively: " + what)
            continue
        cls = "catch-all-misses-line-feed" if (w[0] == "\n" and not c["auto_newline"]) else None
        if cls and cls in known:
            known_seen.setdefault(cls, []).append(desc)
        else:
            run.violation(what, {"config": c, "witness": w, "kind": "gap", "grammar": grammar_text(c), "input": sentence + w})
    # ---- second leg: the whole pipeline PAR text -> scanner configurations -> terminal lists,
    # with additional scanner states (directives are carried per state by to_grammar_config)
    ms_programs, ms_dis = multi_state_leg(run, known, known_seen)
    programs += ms_programs
    disagreements += ms_dis
    queries += ms_programs
    for cls, lst in known_seen.items():
        run.known("%s [%d configurations reproduced natively in this run]" % (known[cls]["what"], len(lst)))
    run.cov.update({
        "programs": programs, "disagreements_checked": disagreements, "samples": samples, "configurations": len(cfgs),
        "queries_discharged": queries, "solver": "z3 %s (regex theory, all strings over z3's character sort U+0000..U+2FFFF)" % z3.get_version_string(),
        "solver_time_s": round(tsolver, 2), "runtime_constants": consts,
        "functions_in_loop": ["generators::scanner_config::ScannerConfig::generate_build_information", "parol_runtime::lexer::{ERROR_TOKEN,NEW_LINE_TOKEN,WHITESPACE_TOKEN}"],
        "explanation": "per configuration: exists non-empty string none of whose non-empty prefixes is matched by any terminal of the mode? unsat required without allow_unmatched; witnesses replayed on the natively built generated parser (sentence + witness must be rejected)",
    })
    run.assume("configuration family: auto_newline x auto_ws x allow_unmatched x {no comments, line //, block (* *)} x terminal sets %s" % sorted(TERMINAL_SETS),
               "characters above U+2FFFF are outside z3's character sort and outside the claim",
               "the step 'Error token => parse fails' is C01's foreign-token case; 'gap token is kept in the tree' for allow_unmatched is covered by C14's buffer kernel")
    return run.finish()


def replay(path):
    obj = json.load(open(path))["replay"]
    if "expect_accept" in obj:
        gpath = os.path.join(BUILD, "gen", "c16_replay.par")
        os.makedirs(os.path.dirname(gpath), exist_ok=True)
        open(gpath, "w").write(obj["grammar"])
        binp, info = GP.build_parser(gpath)
        res = GP.run_parser(binp, obj["input"])
        print(res["accepted"], res["raw"][-300:])
        return 1 if (res["accepted"] is True) != obj["expect_accept"] else 0
    gpath = os.path.join(BUILD, "gen", "c16_replay.par")
    os.makedirs(os.path.dirname(gpath), exist_ok=True)
    open(gpath, "w").write(obj["grammar"])
    binp, info = GP.build_parser(gpath)
    res = GP.run_parser(binp, obj["input"])
    print(res["accepted"], res["raw"][-300:])
    return 1 if res["accepted"] is True else 0
