"""C04 (soundness half) - when parol resolves LALR(1) conflicts, every input the resulting table
accepts is still a sentence of the grammar (engine G, G-LR).  The reporting half of C04 is not
claimed (see DESIGN.md)."""
from checks import c03


def check_main():
    return c03.check_main(prop="C04", conflicts=True)


def replay(path):
    return c03.replay(path)
