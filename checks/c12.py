"""C12 - LR augmentation preserves the language and isolates the start symbol (engine G)."""
from engine_g.par_reader import read_par
from checks import g_lang as GL


def pick(a):
    if not a.get("u") or not a.get("e"):
        return None
    if not read_par(a["grammar"]).is_lalr():
        return None
    return (a["u"], a["e"])


def structural(u_path, e_path):
    ge = read_par(e_path)
    issues = []
    n = sum(1 for lhs, _ in ge.bnf if lhs == ge.start)
    if n != 1:
        issues.append({"key": "start-productions", "text": "start symbol %s of the grammar handed to LALR(1) construction has %d productions" % (ge.start, n)})
    for lhs, rhs in ge.bnf:
        if any(s == ("N", ge.start) for s in rhs):
            issues.append({"key": "start-on-rhs", "text": "start symbol %s occurs on the right-hand side of a production of %s" % (ge.start, lhs)})
            break
    return issues


FUNCS = ["transformation::lr_augmentation::augment_grammar", "generators::grammar_trans::check_and_transform_lr", "utils::generate_name", "conversions::par::render_par_string"]


def main():
    run = GL.lang_main("C12", pick, structural, "the canonicalised grammar (parol -u)", "the augmented grammar (parol -e)", FUNCS,
                       "for every LALR(1) corpus grammar the solver decides, over ALL token strings of length <= N, that the grammar before and after the real LR augmentation have the same bounded language (start symbol and every pre-existing non-terminal); on the augmented grammar the start symbol must have exactly one production and occur on no right-hand side")
    return run.finish()


def replay(path):
    return GL.lang_replay(path, pick, structural)
