"""C30 - language-server position/offset kernel never leaves the text (engine K, in-crate, parol-ls)."""
import os, json
from lib.common import Run, BUILD, REPO, VERIF, tier
from lib.kcheck import H, run_property
from lib import kani
from lib.incrate import playback_incrate

CRATE = os.path.join(REPO, "crates", "parol-ls")
TARGET = os.path.join(BUILD, "kani-ls")
M = "verif_kani::"
F = ["crates/parol-ls/src/utils.rs::pos_to_offset", "crates/parol-ls/src/utils.rs::extract_text_range", "crates/parol-ls/src/rng.rs::Rng::new"]
TEMPLATES = {"ascii": ("ab", 3, 3), "mbend": ("aé", 2, 3), "lf": ("a\\nb", 3, 2), "crlf": ("a\\r\\nb", 3, 3), "trail": ("ab\\n", 3, 3),
             "emptyl": ("\\n\\na", 4, 2), "3byte": ("€\\nx", 3, 2), "barecr": ("a\\rb", 2, 4), "empty": ("", 2, 2), "mbmid": ("éa\\n", 3, 3)}
RANGES = ["mbend_0_0", "mbend_0_1", "crlf_0_1", "crlf_1_2", "trail_0_2", "3byte_0_1"]
QUICK = ("ascii", "mbend", "crlf", "trail", "3byte", "empty")


def harnesses():
    hs = []
    for name, (text, nlines, mc) in TEMPLATES.items():
        for l in range(nlines):
            tiers = ("quick", "thorough") if name in QUICK else ("thorough",)
            hs.append(H(M + "c30_%s_l%d" % (name, l), "text %r, line %d (concrete), character symbolic 0..=%d" % (text, l, mc), F[:1], tiers=tiers, timeout=1200,
                        assumes=["text and line are concrete per harness (a symbolic line drives str::lines symbolically: 6 GB / minutes per template); the character index is symbolic"]))
    for r in RANGES:
        tiers = ("quick", "thorough") if (r.split("_")[0] in QUICK and r != "trail_0_2") else ("thorough",)   # trail_0_2 alone needs ~8 min
        hs.append(H(M + "c30_rng_" + r, "range over template %s, lines concrete, both characters symbolic, start <= end" % r, F, tiers=tiers, timeout=1200))
    hs.append(H(M + "c30_twin_must_fail", "vacuity twin", F[:1], expect="fail"))
    return hs


def replayer(h, hr, target_dir, package):
    src, vecs, out = kani.concrete_values(CRATE, h.name, target_dir)
    if not src:
        return None, {"error": "no concrete values", "tail": out[-1500:]}
    ok, o = playback_incrate(CRATE, "parol_ls", "super", src, "ls")
    return ok, {"harness": h.name, "values": vecs, "playback_test": src, "playback_tail": o[-1200:]}


def main():
    run = run_property("C30", "model_checking", harnesses(), CRATE, TARGET, replayer, jobs=14)
    run.assume("kernel-level claim: pos_to_offset / extract_text_range only; hover, definition, symbols, rename, formatting and code actions as whole requests are outside the claim (they need the generated parser and document state, which CBMC cannot execute)",
               "texts: a committed list of templates of <= 4 characters covering no trailing newline, LF, CRLF, bare CR, empty lines, 2- and 3-byte characters at line end and mid-line; positions: every line 0..lines+1 and every character index 0..=max")
    return run.finish()


def replay(path):
    obj = json.load(open(path))["replay"]
    ok, out = playback_incrate(CRATE, "parol_ls", "super", obj["playback_test"], "ls")
    print(out[-2500:])
    return 1 if ok else 0
