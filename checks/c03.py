"""C03 - LALR(1) parsers accept exactly the language and build a derivation.

Leg G-LR (engine G): for every LALR(1) corpus grammar the parse table written by the real generator
(PARSE_TABLE / PRODUCTIONS in the generated parser source) is unrolled as an LR automaton over
symbolic tokens in z3 and compared with the bounded language of the grammar as written:
accepts <=> sentence, for ALL token strings <= N.  Structural conjuncts on the same artifact make
every reduction a valid derivation step (accessing symbols of the popped states spell the
production's right-hand side), so an accepting run is a rightmost derivation in reverse.
Table construction finishing without a crash is observed on the corpus (not a solver claim).
The runtime loop (LRParser::parse_into) is covered by the engine-K kernels, see evidence.
"""
import os, json, random, time, concurrent.futures as cf
from lib.common import Run, tier, seed, known_for
from lib import genparser as GP
from engine_g import pipeline as P, cfg_sat as C, lrtab
from engine_g.par_reader import read_par
from engine_g.rs_tables import RsTables
from checks import g_lang as GL, g_tab as GT
from checks.c34 import expand


def numbering(ge):
    """parol's terminal numbering rule, re-derived from the transformed grammar text: terminals are
    numbered from 5 in order of first occurrence; "..", /../ spellings with equal text are one
    terminal, '..' (raw) is a different one; lookahead distinguishes."""
    order = []
    for _, rhs in ge.bnf:
        for s in rhs:
            if s[0] == "T":
                k = s[1]
                beh = ("raw" if k[0] == "raw" else "rx", k[1], k[2])
                if beh not in order:
                    order.append(beh)
    return {b: 5 + i for i, b in enumerate(order)}


def key_index(num, k):
    return num.get(("raw" if k[0] == "raw" else "rx", k[1], k[2]))


def structure(T, ge, num):
    issues = []
    pe = ge.bnf
    if len(pe) != len(T.lr_prods):
        return ["generated PRODUCTIONS has %d entries, augmented grammar (parol -e) has %d productions" % (len(T.lr_prods), len(pe))]
    for i, ((lhs_i, ln), (lhs, rhs)) in enumerate(zip(T.lr_prods, pe)):
        if T.nts[lhs_i] != lhs or ln != len(rhs):
            issues.append("production %d: table says %s with %d symbols, grammar says %s with %d" % (i, T.nts[lhs_i], ln, lhs, len(rhs)))
    # scanner numbering agrees with the rule (expanded pattern)
    for b, idx in num.items():
        info = T.term_keys.get(idx)
        exp = expand(("raw" if b[0] == "raw" else "str", b[1], b[2]))[0]
        if info is None or info["pattern"] != exp:
            issues.append("terminal %d: scanner pattern %r, expected %r" % (idx, info and info["pattern"], exp))
    if issues:
        return issues
    # accessing symbols
    states = T.lalr["states"]
    acts = T.lalr["actions"]
    acc = {}
    pred = {}
    for si, st in enumerate(states):
        for term, ai in st["actions"]:
            a = acts[ai]
            if a[0] == "shift":
                sym = ("T", term)
                if acc.setdefault(a[1], sym) != sym:
                    issues.append("state %d is entered on two different symbols" % a[1])
                pred.setdefault(a[1], set()).add(si)
        for nt, tgt in st["gotos"]:
            sym = ("N", T.nts[nt])
            if acc.setdefault(tgt, sym) != sym:
                issues.append("state %d is entered on two different symbols" % tgt)
            pred.setdefault(tgt, set()).add(si)
    # every reduce in state s by p: all backward paths of length |rhs| spell rhs(p); goto exists
    for si, st in enumerate(states):
        for term, ai in st["actions"]:
            a = acts[ai]
            if a[0] != "reduce":
                continue
            lhs_i, p = a[1], a[2]
            if p >= len(pe) or T.nts[lhs_i] != pe[p][0]:
                issues.append("state %d: reduce names production %d with lhs %s but the grammar's production has lhs %s" % (si, p, T.nts[lhs_i], pe[p][0] if p < len(pe) else "?"))
                continue
            rhs = [("T", key_index(num, s[1])) if s[0] == "T" else s for s in pe[p][1]]
            frontier = {si}
            for sym in reversed(rhs):
                nxt = set()
                for s in frontier:
                    if acc.get(s) != sym:
                        issues.append("state %d: reduce by production %d (%s) but a popped state %d is entered on %r, not %r" % (si, p, T.texts[p] if p < len(T.texts) else "", s, acc.get(s), sym))
                    nxt |= pred.get(s, set())
                frontier = nxt
                if len(issues) > 20:
                    return issues
            for s in frontier:
                if not any(nt == lhs_i for nt, _ in states[s]["gotos"]):
                    issues.append("state %d: reduce by production %d reaches state %d which has no goto on %s" % (si, p, s, T.nts[lhs_i]))
    return issues[:20]


def one(task):
    t0 = time.time()
    try:
        T = RsTables(task["parser"])
        gs = read_par(task["grammar"])
        ge = read_par(task["e"])
    except Exception as e:
        return dict(task, status="reader_error", error=repr(e)[:300])
    if T.algorithm != "Lalr1":
        return dict(task, status="skip")
    num = numbering(ge)
    r = dict(task, status="ok", states=len(T.lalr["states"]), actions=len(T.lalr["actions"]), productions=len(T.lr_prods))
    if task.get("ambiguity_only"):
        # C04, reporting half (partial): a grammar for which no conflict was reported must not be
        # ambiguous within N (an ambiguous grammar is not LALR(1))
        import z3
        from engine_g import ambig
        vocab = {k: i + 1 for i, k in enumerate(ge.term_order)}
        toks, n, dom = C.token_vars(task["N"], max(1, len(vocab)))
        try:
            A = ambig.Ambiguity(ge.bnf, ge.start, vocab, toks, n, task["N"])
            q = A.ambiguous_sentence()
        except ambig.Cyclic as e:
            r["ambiguity"] = {"status": "cyclic", "detail": str(e)}
            return r
        sv = z3.Solver()
        sv.set("timeout", 240000)
        sv.add(dom)
        sv.add(q)
        t1 = time.time()
        st = sv.check()
        d = {"status": str(st), "solver_s": round(time.time() - t1, 2)}
        if st == z3.sat:
            w = C.model_tokens(sv.model(), toks, n)
            inv = {v: k for k, v in vocab.items()}
            d.update(witness=w, witness_terminals=[inv[x][1] for x in w], trees=ambig.count_trees(ge.bnf, ge.start, w, vocab))
            d["confirmed"] = d["trees"] >= 2
        r["ambiguity"] = d
        r["wall_s"] = round(time.time() - t0, 2)
        return r
    r["structure"] = structure(T, ge, num)
    if ge.start != T.start:
        r["structure"].append("start symbol of the generated parser is %s, of the augmented grammar %s" % (T.start, ge.start))
    # language of the grammar as written over the table's terminal numbers
    missing = [k for k in gs.term_order if key_index(num, k) is None]
    if missing:
        r["structure"].append("terminals of the source grammar missing from the transformed grammar: %r" % missing[:3])
        return r
    prods = [(l, [("T", key_index(num, s[1])) if s[0] == "T" else s for s in rhs]) for l, rhs in gs.bnf]
    N = task["N"]
    while True:
        steps = 6 * N + 10
        for attempt in range(3):
            sim = lrtab.LRSim(T, N, steps=steps)
            L = C.Lang(prods, gs.start, {i: i for i in T.term_ids}, sim.toks, sim.n, N)
            res = sim.check(L.sentence(), timeout_ms=task.get("timeout_ms", 240000))
            if res["bound_too_small"]["status"] != "sat":
                break
            steps *= 2          # deep unit-production chains need more reductions per token
        if N <= 4 or not any(d["status"] == "unknown" for d in res.values()):
            break
        N -= 2              # solver time-out: decide a smaller bound and say so
    r["unroll_steps"] = steps
    r["N"] = N
    r["N_requested"] = task["N"]
    inv = {v: k for k, v in num.items()}
    for name, d in res.items():
        if d["status"] == "sat":
            w = d["witness"]
            member = C.derives_brute(prods, gs.start, {i: i for i in T.term_ids}, w) if w else (gs.start in C.NormalForm(prods).nullable)
            acc, red = lrtab.lr_sim_concrete(T, w)
            d.update(member=member, table_accepts=acc, reductions=red, witness_terminals=[inv[t][1] for t in w])
            lex = [GT.literal_lexeme(T.term_keys[t]) for t in w]
            d["witness_text"] = " ".join(lex) if all(x is not None for x in lex) else None
            if name == "accepts_non_sentence":
                d["confirmed"] = acc and not member
            elif name == "rejects_sentence":
                d["confirmed"] = member and not acc
    r["lr"] = res
    r["wall_s"] = round(time.time() - t0, 2)
    return r


def check_main(prop="C03", conflicts=False):
    run = Run(prop, "translation_validation")
    N = 6 if tier() == "quick" else 8
    files = [f for f in GL.select(P.corpus()) if read_par(f).is_lalr()]
    random.Random(seed()).shuffle(files)
    arts = GL.generate(files, want_parser=True)
    tasks, skipped = [], []
    for a in arts:
        if a["rc"] != 0 or not a.get("parser") or not a.get("e"):
            skipped.append({"grammar": a["grammar"], "why": "rejected by parol / generation failed or timed out (rc=%s): %s" % (a["rc"], a["out"][-120:])})
            continue
        if conflicts and not a.get("resolved_conflicts"):
            tasks.append({"grammar": a["grammar"], "parser": a["parser"], "e": a["e"], "N": N, "ambiguity_only": True})
            continue
        if bool(a.get("resolved_conflicts")) != conflicts:
            # C03 quantifies over grammars accepted "without reporting any resolved conflict";
            # C04's soundness half over those WITH reported resolved conflicts
            skipped.append({"grammar": a["grammar"], "why": "parol reported %d resolved conflict(s)" % (a.get("resolved_conflicts") or 0)})
            continue
        nstates = open(a["parser"], encoding="utf-8").read().count("LR1State {")
        tasks.append({"grammar": a["grammar"], "parser": a["parser"], "e": a["e"], "N": (3 if nstates > 40 else N)})
    import multiprocessing as mp
    res = [None] * len(tasks)
    with mp.get_context("fork").Pool(processes=12, maxtasksperchild=10) as pool:
        hs = [pool.apply_async(one, (t,)) for t in tasks]
        for i, h in enumerate(hs):
            try:
                res[i] = h.get(timeout=2400)
            except Exception as e:
                res[i] = dict(tasks[i], status="worker_failed", error="%s: %s" % (type(e).__name__, str(e)[:200]))
        pool.terminate()
    programs = disagreements = queries = 0
    tsolver = 0.0
    samples = []
    for r in res:
        if r["status"] == "skip":
            continue
        if r["status"] != "ok":
            run.inconc("%s: %s %s" % (r["grammar"], r["status"], r.get("error", "")))
            continue
        programs += 1
        for s in r.get("structure", []):
            disagreements += 1
            run.violation("%s: generated LR tables are inconsistent with the augmented grammar: %s" % (r["grammar"], s),
                          {"grammar": r["grammar"], "kind": "structure", "issue": s})
        amb = r.get("ambiguity")
        if amb:
            queries += 1
            tsolver += amb.get("solver_s", 0)
            if amb["status"] == "sat":
                disagreements += 1
                if amb.get("confirmed"):
                    run.violation("%s: parol reported NO conflict, but the grammar handed to LALR(1) construction is ambiguous: token string [%s] has %d+ parse trees, so it is not LALR(1) and a conflict was resolved silently" % (
                        r["grammar"], " ".join(amb["witness_terminals"]), amb["trees"]),
                        {"grammar": r["grammar"], "kind": "unreported-conflict", "witness": amb["witness"], "N": r["N"]})
                else:
                    run.inconc("%s: ambiguity witness %s not confirmed by the tree counter (encoder defect)" % (r["grammar"], amb.get("witness")))
            elif amb["status"] not in ("unsat", "cyclic"):
                run.inconc("%s: ambiguity query %s" % (r["grammar"], amb["status"]))
            if len(samples) < 6:
                samples.append({"grammar": r["grammar"], "N": r["N"], "query": "exists sentence <= N with two parse trees (no conflict was reported)", "verdict": amb["status"], "solver_s": amb.get("solver_s")})
            continue
        lr = r.get("lr") or {}
        for name, d in lr.items():
            queries += 1
            tsolver += d.get("solver_s", 0)
            if conflicts and name == "rejects_sentence":
                continue    # a resolved conflict may legitimately drop sentences; only soundness is claimed
            if name == "bound_too_small":
                if d["status"] != "unsat":
                    run.inconc("%s: LR unrolling bound too small or solver %s (witness %s)" % (r["grammar"], d["status"], d.get("witness")))
                continue
            if d["status"] == "sat":
                disagreements += 1
                if not d.get("confirmed"):
                    run.inconc("%s: %s witness %s not confirmed by the reference LR driver / CYK (encoder defect)" % (r["grammar"], name, d.get("witness")))
                    continue
                nat = None
                if d.get("witness_text") is not None:
                    b, info = GP.build_parser(r["grammar"])
                    if b:
                        nat = GP.run_parser(b, d["witness_text"])["accepted"]
                what = "%s: token string [%s] %s: the generated LALR(1) table %s it; natively the generated parser %s" % (
                    r["grammar"], " ".join(d["witness_terminals"]), "is a sentence of the grammar as written" if d["member"] else "is NOT a sentence of the grammar as written",
                    "accepts" if d["table_accepts"] else "rejects", {True: "accepts it", False: "rejects it", None: "was not run (no literal lexemes)", "panic": "panics"}[nat])
                if nat is not None and nat != d["table_accepts"]:
                    run.inconc("native replay disagrees with the table simulation: " + what)
                else:
                    run.violation(what, {"grammar": r["grammar"], "kind": name, "witness": d["witness"], "witness_text": d.get("witness_text"), "N": r["N"]})
            elif d["status"] != "unsat":
                run.inconc("%s: %s solver %s" % (r["grammar"], name, d["status"]))
        if len(samples) < 6:
            samples.append({"grammar": r["grammar"], "N": r["N"], "states": r["states"], "actions": r["actions"], "productions": r["productions"],
                            "queries": {k: (v["status"], v.get("solver_s")) for k, v in lr.items()}})
    run.cov.update({
        "programs": programs, "disagreements_checked": disagreements, "samples": samples or [{"note": "nothing validated"}], "bound_N_tokens": N,
        "grammars": len(files), "skipped": skipped, "queries_discharged": queries, "solver": "z3 %s" % __import__("z3").get_version_string(), "solver_time_s": round(tsolver, 2),
        "functions_in_loop": ["transformation::lr_augmentation::augment_grammar", "analysis::lalr1_parse_table::calculate_lalr1_parse_table (lalry)", "generators::parser_generator (LR tables)"],
        "explanation": "LR automaton of the generated PARSE_TABLE unrolled over symbolic tokens (6N+10 steps, stack depth 2N+6, both bounds checked by a third query) vs bounded derivability in the grammar as written; plus accessing-symbol consistency of every reduce action (each reduction is a derivation step)",
    })
    if conflicts:
        run.cov["explanation"] = "reporting half (PARTIAL): for every corpus grammar accepted WITHOUT a reported conflict z3 decides that no sentence <= N has two parse trees in the grammar handed to table construction (an ambiguous grammar is not LALR(1); non-LALR(1) grammars that are unambiguous are not detected). Soundness half: for every corpus grammar for which parol REPORTS resolved conflicts (shift over reduce, earlier production) the generated table, unrolled as an LR automaton over symbolic tokens, accepts no token string <= N that is not a sentence of the grammar as written. Whether every conflicting grammar is reported is NOT decided (it needs an independent LALR(1) construction)."
    run.assume("bounded: token strings of length <= %d; LALR corpus = repository + /verif/grammars grammars of type lalr(1); grammars whose generation exceeds the per-grammar time limit are skipped and listed" % N,
               "table construction 'completes without crashing' is observed natively on the corpus, not decided by the solver",
               "runtime side: LRParser::parse_into is not symbolically executed in this leg")
    return run.finish()


def replay(path):
    obj = json.load(open(path))["replay"]
    a = GL.generate([obj["grammar"]], want_parser=True)[0]
    r = one({"grammar": obj["grammar"], "parser": a["parser"], "e": a["e"], "N": obj.get("N", 6)})
    print(json.dumps({k: r.get(k) for k in ("structure", "lr")}, indent=1, default=str)[:3000])
    if obj["kind"] == "unreported-conflict":
        r = one({"grammar": obj["grammar"], "parser": a["parser"], "e": a["e"], "N": obj.get("N", 6), "ambiguity_only": True})
        print(r.get("ambiguity"))
        return 1 if (r.get("ambiguity") or {}).get("confirmed") else 0
    if obj["kind"] == "structure":
        return 1 if r.get("structure") else 0
    d = (r.get("lr") or {}).get(obj["kind"], {})
    return 1 if d.get("status") == "sat" and d.get("confirmed") else 0
