"""Registry of the one-step / kernel Kani harnesses in parol_runtime shared by C02, C14, C17, C19, C20."""
import os, json, re
from lib.common import Run, BUILD, REPO, VERIF, tier
from lib.kcheck import H, run_property
from lib import kani, coretables
from lib.incrate import playback_incrate

CRATE = os.path.join(REPO, "crates", "parol_runtime")
TARGET = os.path.join(BUILD, "kani-rt")
LL = "parser::parser_types::verif_ll_steps::"
LR = "lr_parser::parser_types::verif_lr_steps::"
BUF = "verif_kani::c14_buffer::"
PT = "crates/parol_runtime/src/parser/parser_types.rs::LLKParser::"
LRT = "crates/parol_runtime/src/lr_parser/parser_types.rs::LRParser::"
TB = "crates/parol_runtime/src/lexer/token_buffer.rs::TokenBuffer::"
FMT = ["std::fmt::format -> empty String (diagnostic text)"]
STATE = "pre-state built directly (private fields), tables = constant blocks copied from the parser source the freshly built parol generates for grammars/%s.par"

LL_GRAMMARS = {"anbn": "ll_anbn", "expr": "ll_expr", "k3_nt": "ll_k3_nt", "list_k2": "ll_list_k2", "nullable": "ll_nullable_tail"}
QUICK_LL = ("anbn", "expr", "list_k2")


def ll_push(quick_only=False):
    return [H(LL + "ll_push_" + k, "every production of grammars/%s.par; production depth 0..999, depth limit none or 0..999, trim on/off (all symbolic)" % g,
              [PT + "push_production"], stubs=FMT, assumes=[STATE % g], tiers=("quick", "thorough") if k in QUICK_LL else ("thorough",), timeout=1500)
            for k, g in LL_GRAMMARS.items()]


def ll_process():
    return [H(LL + "ll_process_" + k, "every production of grammars/%s.par; children = one entry per right-hand-side symbol; trim on/off, recovery mode on/off (symbolic)" % g,
              [PT + "process_item_stack", "parser_common/parse_tree_stack.rs::ParseTreeStack::split_off"], stubs=FMT, assumes=[STATE % g],
              tiers=("quick", "thorough") if k in QUICK_LL else ("thorough",), timeout=1500)
            for k, g in LL_GRAMMARS.items()]


LR_INST = {  # name -> (grammar, kind, production, quick)
    "lr_action_expr_p0": ("lr_expr", 0, 0, True), "lr_action_expr_p1": ("lr_expr", 0, 1, True), "lr_action_expr_p5": ("lr_expr", 0, 5, True), "lr_action_expr_p6": ("lr_expr", 0, 6, False),
    "lr_action_ws_expr_p1": ("lr_expr", 1, 1, True), "lr_action_ws_expr_p5": ("lr_expr", 1, 5, True), "lr_action_ws_expr_p6": ("lr_expr", 1, 6, False),
    "lr_action_stateskip_expr_p1": ("lr_expr", 2, 1, True), "lr_action_stateskip_expr_p5": ("lr_expr", 2, 5, True), "lr_action_stateskip_expr_p6": ("lr_expr", 2, 6, False),
    "lr_action_nullable_p0": ("lr_nullable_start", 0, 0, False), "lr_action_nullable_p1": ("lr_nullable_start", 0, 1, False), "lr_action_nullable_p2": ("lr_nullable_start", 0, 2, False),
    "lr_action_ws_nullable_p1": ("lr_nullable_start", 1, 1, False), "lr_action_stateskip_nullable_p1": ("lr_nullable_start", 2, 1, False),
}
KIND = {0: "no interleaved skip tokens", 1: "a built-in skip token (whitespace) optionally before every symbol (symbolic)", 2: "a %skip-listed token (state_skip) optionally before every symbol (symbolic)"}


def lr_action(kinds):
    out = []
    for name, (g, kind, p, q) in LR_INST.items():
        if kind in kinds:
            out.append(H(LR + name, "production %d of grammars/%s.par; %s; trim on/off (symbolic)" % (p, g, KIND[kind]),
                         [LRT + "call_action", "parser_common/parse_tree_stack.rs::ParseTreeStack::pop_n", "lr_parser/parse_tree.rs::LRParseTree::is_skip_token"],
                         stubs=FMT, assumes=[STATE % g, "one harness per production (a loop over all productions ran out of memory)"],
                         tiers=("quick", "thorough") if q else ("thorough",), timeout=1500))
    return out


def buffer_gap():
    return [H(BUF + "c14_gap_first_token", "input \"abcd\"; first token with symbolic span 0<=s<e<=4", [TB + "add", TB + "take_skip_tokens", TB + "consume"], timeout=1500),
            H(BUF + "c14_gap_between_tokens", "input \"abcd\"; token [0,1) then a token with symbolic span 1<=s<e<=4", [TB + "add", TB + "take_skip_tokens", TB + "consume"], timeout=1500),
            H(BUF + "c14_add_token_numbers", "gap token number for every u32 predecessor number (saturating at MAX)", [TB + "add"], timeout=1500)]


def buffer_filter():
    return [H(BUF + "c17_buffer_filtering", "3 tokens with types from {2 user, whitespace, line comment, INVALID} and symbolic state_skip flags",
              [TB + "len", TB + "is_empty", TB + "non_skip_token_at", TB + "take_skip_tokens", TB + "consume", "lexer/token.rs::Token::is_effectively_skip_token"], timeout=1500)]


KER = "verif_kani::c17_kernels::"
PS = "crates/parol_runtime/src/parser_common/parse_tree_stack.rs::ParseTreeStack::"


def skip_classification():
    return [H(KER + "c17_skip_classification", "every token type (u16) and state_skip flag",
              ["lexer/token.rs::Token::{is_skip_token,is_effectively_skip_token,is_comment_token}", "lr_parser/parse_tree.rs::LRParseTree::is_skip_token"], timeout=900)]


def state_skip_lookup():
    return [H(KER + "c17_state_skip_lookup", "two scanner states with symbolic skip lists of <= 3 entries in ANY order, a third state without list; every token type",
              ["lexer/token_stream.rs::TokenStream::is_state_skip_token"], timeout=1200,
              assumes=["TokenStream built by the cfg(kani) constructor hook with an idle scnr2 iterator; only the skip-list lookup is exercised"])]


def pop_n(quick_lens=(0, 1, 2, 3, 6)):
    return [H(KER + "c17_pop_n_len%d" % n, "stack of %d entries with symbolic 'counted' flags, n symbolic 0..=6; instantiation T = Flag (u8 id + bool)" % n,
              [PS + "pop_n", PS + "split_off"], tiers=("quick", "thorough") if n in quick_lens else ("thorough",), timeout=900,
              assumes=["generic routine instantiated at a small element type (the LR instantiation at LRParseTree<'t> with real tokens did not finish in 25 min)"])
            for n in range(0, 7)]


def split_off():
    return [H(KER + "c02_split_off_len%d" % n, "stack of %d entries, split point symbolic" % n, [PS + "split_off"], timeout=900) for n in (4, 6)]


def add_error():
    return [H(LL + n, "%d previously recorded error(s); recovery on/off symbolic; error locations symbolic" % k, [PT + "add_error", PT + "is_in_recovery_mode"], stubs=FMT, timeout=900,
              assumes=["one harness per number of previous errors (a symbolic Vec length ran out of memory)"])
            for n, k in (("ll_add_error_first", 0), ("ll_add_error_second", 1))]


def k_leg(prop, harnesses, jobs=8):
    """Runs Kani harnesses as an additional leg of a check that is mainly decided by another engine.
    Returns the Run object (not finished) so that the caller can merge it."""
    coretables.ensure()
    return run_property(prop, "model_checking", harnesses, CRATE, TARGET, replayer, jobs=jobs)


def twins(which):
    m = {"ll": LL + "ll_steps_twin_must_fail", "lr": LR + "lr_steps_twin_must_fail", "buf": BUF + "c14_twin_must_fail", "ker": KER + "c17_kernels_twin_must_fail"}
    return [H(m[w], "vacuity twin", [], expect="fail", stubs=FMT) for w in which]


def replayer(h, hr, target_dir, package):
    """No stream stubs are involved in these harnesses (only fmt::format): Kani's playback runs the
    harness body natively with the solver's values."""
    src, vecs, out = kani.concrete_values(CRATE, h.name, target_dir)
    if not src:
        return None, {"error": "no concrete values", "tail": out[-1200:]}
    ok, o = _pb(h.name, src)
    return ok, {"harness": h.name, "values": vecs, "playback_test": src, "playback_tail": o[-1200:]}


def _pb(name, src):
    parts = name.split("::")
    if parts[0] == "verif_kani":
        return playback_incrate(CRATE, "parol_runtime", "super::" + parts[1], src, "rt")
    # harness lives in a cfg(kani) child module of one of the parser_types.rs files: the generated
    # test goes into that module's own placeholder file
    gen = "playback_gen_ll.rs" if "verif_ll_steps" in name else "playback_gen_lr.rs"
    return playback_incrate(CRATE, "parol_runtime", "super", src, "rt", gen_file=gen)


def run(prop, harnesses, assumptions, jobs=12):
    info = coretables.ensure()
    r = run_property(prop, "model_checking", harnesses, CRATE, TARGET, replayer, jobs=jobs)
    r.cov["generated_tables"] = {k: v for k, v in info.items() if not k.startswith("__")}
    r.assume(*assumptions)
    r.assume("whole parse runs are outside the claim: LLKParser::parse_into on a^n b^n with N <= 2 symbolic tokens, recovery off, trimmed tree did not finish in 45 min / 9 GB under CBMC; the loop body is not a separate function, so the claim is per mechanism (push_production, process_item_stack, call_action, TokenBuffer operations), each from a directly built pre-state")
    return r.finish()
