"""C01 - LL(k) parsers accept exactly the language of the grammar.

Leg G (this file, engine G): for every LL corpus grammar and lookahead limit
  (i)   the generated PRODUCTIONS table encodes the transformed grammar (shape + injective terminal map),
  (ii)  L_N(grammar as written) == L_N(generated PRODUCTIONS) for all token strings <= N,
  (iii) G-tab: for every sentence <= N, every prediction a table-driven parser needs is the one the
        generated LOOKAHEAD_AUTOMATA make within their declared k (so every sentence is accepted), and
        every automaton predicts only productions of its own non-terminal (so only sentences are).
Leg K (engine K): the runtime side - see checks/c01_k.py (prediction = C08; parser loop core harness).
"""
from checks import c07


def check_main():
    run = c07.main(prop="C01", want_exactness=False, with_language=True)
    # runtime kernel leg (engine K): a syntax error once reported is recorded by add_error, with
    # recovery on or off - the mechanism that keeps parse_into from returning Ok on a non-sentence
    from checks import steps_common as SC
    k = SC.k_leg("C01", SC.add_error() + SC.twins(("ll",)))
    run.cov["runtime_kernel_leg"] = {kk: k.cov.get(kk) for kk in ("harnesses", "evaluations", "queries_discharged", "solver_time_s", "solver")}
    run.cov["queries_discharged"] = run.cov.get("queries_discharged", 0) + (k.cov.get("queries_discharged") or 0)
    run.violations += k.violations
    run.inconclusive += k.inconclusive
    for a in k.assumptions:
        run.assume(a)
    run.cov["explanation"] = ("generated LL(k) tables (PRODUCTIONS + LOOKAHEAD_AUTOMATA read from the parser source the real parol writes) are validated "
                              "against the grammar as written: same bounded language, and table-driven prediction is right at every node of every parse tree of every "
                              "sentence <= N. The step from tables to the real runtime loop is C08 (exact prediction) plus the parser-core Kani harnesses.")
    run.assume("runtime side: prediction exactness is C08; 'a reported error is never lost' is the add_error kernel leg of this check; the parser loop as a whole (LLKParser::parse_into) is NOT symbolically executed (DESIGN.md 0.5); recovery on/off does not change the tables")
    return run.finish()


def replay(path):
    return c07.replay(path)
