"""C01 - LL(k) parsers accept exactly the language of the grammar.

Leg G (this file, engine G): for every LL corpus grammar and lookahead limit
  (i)   the generated PRODUCTIONS table encodes the transformed grammar (shape + injective terminal map),
  (ii)  L_N(grammar as written) == L_N(generated PRODUCTIONS) for all token strings <= N,
  (iii) G-tab: for every sentence <= N, every prediction a table-driven parser needs is the one the
        generated LOOKAHEAD_AUTOMATA make within their declared k (so every sentence is accepted), and
        every automaton predicts only productions of its own non-terminal (so only sentences are).
Leg K (engine K): the runtime side - see checks/c01_k.py (prediction = C08; parser loop core harness).
"""
from checks import c07


def check_main():
    run = c07.main(prop="C01", want_exactness=False, with_language=True)
    run.cov["explanation"] = ("generated LL(k) tables (PRODUCTIONS + LOOKAHEAD_AUTOMATA read from the parser source the real parol writes) are validated "
                              "against the grammar as written: same bounded language, and table-driven prediction is right at every node of every parse tree of every "
                              "sentence <= N. The step from tables to the real runtime loop is C08 (exact prediction) plus the parser-core Kani harnesses.")
    run.assume("runtime side (LLKParser::parse_into on these tables) is covered by the engine-K legs, not by this leg; recovery on/off is a runtime option and does not change the tables")
    return run.finish()


def replay(path):
    return c07.replay(path)
