"""Shared driver for the G-tab legs (C07, C01): exported LL(k) tables vs exported grammar."""
import os, json, time, random, concurrent.futures as cf
from lib.common import Run, tier, seed, log, known_for
from engine_g import pipeline as P
from engine_g import gtab, cfg_sat as C
from engine_g.par_reader import read_par
from checks import g_lang as GL


def ll_sim(T, toks):
    """Reference predictive parser driven by the exported tables (longest accepting prefix within k)."""
    stack = [("N", T.start)]
    pos = 0
    steps = 0
    while stack:
        steps += 1
        if steps > 10000:
            return False, "step limit"
        s = stack.pop()
        if s[0] == "T":
            if pos < len(toks) and toks[pos] == s[1]:
                pos += 1
            else:
                return False, "token mismatch at %d" % pos
        else:
            a = T.automata[s[1]]
            if a["prod0"] != -1:
                p = a["prod0"]
            else:
                st, p = 0, -1
                for d in range(a["k"]):
                    t = toks[pos + d] if pos + d < len(toks) else 0
                    hit = [x for x in a["trans"] if x[0] == st and x[1] == t]
                    if not hit:
                        break
                    st = hit[0][2]
                    if hit[0][3] != -1:
                        p = hit[0][3]
                if p == -1:
                    return False, "prediction error for %s at %d" % (s[1], pos)
            for x in reversed(T.prods[p][1]):
                stack.append(x)
    return pos == len(toks), "end"


def literal_lexeme(info):
    """Lexeme for a terminal if its pattern is a plain literal; else None."""
    pat = info["pattern"]
    if info["lookahead"]:
        return None
    if info["kind"] == "raw":
        return pat
    out = []
    i = 0
    while i < len(pat):
        ch = pat[i]
        if ch == "\\" and i + 1 < len(pat) and pat[i + 1] in r"\.+*?()[]{}|^$/-\"'":
            out.append(pat[i + 1])
            i += 2
            continue
        if ch in r"\.+*?()[]{}|^$":
            return None
        out.append(ch)
        i += 1
    return "".join(out)


def load_tables(task):
    from engine_g.rs_tables import RsTables
    if task.get("source", "export") == "parser_rs":
        return RsTables(task["parser"])
    return gtab.Tables(task["export"])


def align_terminals(T, e_path):
    """Relates generated PRODUCTIONS to the transformed grammar text (parol -e): same number of
    productions, same shape, and a consistent injective map terminal index -> terminal literal.
    Returns (issues, map idx -> key)."""
    ge = read_par(e_path)
    issues, m = [], {}
    pe = ge.bnf
    if len(pe) != len(T.prods):
        return ["generated PRODUCTIONS has %d entries, transformed grammar (parol -e) has %d productions" % (len(T.prods), len(pe))], m
    for i, ((l1, r1), (l2, r2)) in enumerate(zip(T.prods, pe)):
        if l1 != l2 or len(r1) != len(r2):
            issues.append("production %d: generated table has %s with %d symbols, transformed grammar has %s with %d" % (i, l1, len(r1), l2, len(r2)))
            continue
        for a, b in zip(r1, r2):
            if a[0] != b[0] or (a[0] == "N" and a[1] != b[1]):
                issues.append("production %d: symbol kinds/names differ (%r vs %r)" % (i, a, b))
            elif a[0] == "T":
                if m.setdefault(a[1], b[1]) != b[1]:
                    issues.append("terminal index %d stands for two different literals: %r and %r" % (a[1], m[a[1]], b[1]))
    inv = {}
    for k, v in m.items():
        if inv.setdefault(v, k) != k:
            issues.append("literal %r has two terminal indices: %d and %d" % (v, inv[v], k))
    if ge.start != T.start:
        issues.append("start symbol of the generated parser is %s, of the transformed grammar %s" % (T.start, ge.start))
    return issues, m


def one(task):
    t0 = time.time()
    try:
        T = load_tables(task)
    except Exception as e:
        return dict(task, status="reader_error", error=repr(e)[:300])
    if T.algorithm != "Llk":
        return dict(task, status="skip_lalr")
    r = dict(task, status="ok", prods=len(T.prods), terminals=len(T.term_ids), automata=len(T.automata))
    r["structure"] = T.structure_issues()
    if getattr(T, "max_k", None) is not None:
        for nt, a in T.automata.items():
            if a["k"] > T.max_k:
                r["structure"].append("%s: automaton k=%d exceeds the generated MAX_K=%d" % (nt, a["k"], T.max_k))
    if task.get("scanner_vocab") and task.get("source_grammar"):
        # C18: terminal identity through the GENERATED SCANNER: table indices are interpreted by the
        # regex the scanner block assigns to them, source terminals by their expanded pattern
        from checks.c34 import expand
        gs = read_par(task["source_grammar"])
        ids, issues = {}, []
        for k in gs.term_order:
            ids.setdefault(expand(k), len(ids) + 1)
        used = set(x[1] for _, rhs in T.prods for x in rhs if x[0] == "T")
        for a in T.automata.values():
            used |= set(t[1] for t in a["trans"] if t[1] != 0)
        tmap = {}
        for idx in sorted(used):
            info = T.term_keys.get(idx)
            if info is None:
                issues.append("terminal index %d is used by the tables but no scanner mode produces it" % idx)
                continue
            tmap[idx] = ids.setdefault((info["pattern"], info["lookahead"]), len(ids) + 1)
        for idx, info in T.term_keys.items():
            if (info["pattern"], info["lookahead"]) not in ids:
                issues.append("scanner terminal %d (%r) corresponds to no terminal of the grammar" % (idx, info["pattern"]))
        if len(getattr(T, "terminal_names", [])) and max(list(T.term_keys) + [4]) + 2 != len(T.terminal_names):
            issues.append("TERMINAL_NAMES has %d entries but the scanner's highest user terminal is %d" % (len(T.terminal_names), max(list(T.term_keys) + [4])))
        r["identity_issues"] = issues
        if not issues:
            prods = [(l, [("T", ("#", tmap[x[1]])) if x[0] == "T" else x for x in rhs]) for l, rhs in T.prods]
            src = [(l, [("T", ("#", ids[expand(x[1])])) if x[0] == "T" else x for x in rhs]) for l, rhs in gs.bnf]
            vocab = {("#", i): i for i in ids.values()}
            st, wit, dt = P.lang_diff(src, gs.start, prods, T.start, vocab, task["N"], timeout_ms=task.get("timeout_ms", 300000))
            inv = {v: k for k, v in ids.items()}
            r["language"] = {"status": st, "solver_s": round(dt, 2)}
            if st == "sat":
                ina = C.derives_brute(src, gs.start, vocab, wit) if wit else (gs.start in C.NormalForm(src).nullable)
                inb = C.derives_brute(prods, T.start, vocab, wit) if wit else (T.start in C.NormalForm(prods).nullable)
                r["language"].update(witness=wit, witness_text=[inv[t][0] for t in wit], in_source=ina, in_tables=inb, confirmed=(ina != inb))
            elif st != "unsat":
                r["language"]["reason"] = str(wit)
    if task.get("align_e"):
        iss, tmap = align_terminals(T, task["align_e"])
        r["alignment_issues"] = iss
        if not iss and task.get("source_grammar"):
            # L_N(grammar as written) == L_N(generated PRODUCTIONS) through the terminal map
            gs = read_par(task["source_grammar"])
            keys = list(gs.term_order)
            for v in tmap.values():
                if v not in keys:
                    keys.append(v)
            vocab = {k: i + 1 for i, k in enumerate(keys)}
            prods = [(l, [("T", tmap[x[1]]) if x[0] == "T" else x for x in rhs]) for l, rhs in T.prods]
            st, wit, dt = P.lang_diff(gs.bnf, gs.start, prods, T.start, vocab, task["N"], timeout_ms=task.get("timeout_ms", 300000))
            r["language"] = {"status": st, "solver_s": round(dt, 2)}
            if st == "sat":
                ina = C.derives_brute(gs.bnf, gs.start, vocab, wit) if wit else (gs.start in C.NormalForm(gs.bnf).nullable)
                inb = C.derives_brute(prods, T.start, vocab, wit) if wit else (T.start in C.NormalForm(prods).nullable)
                r["language"].update(witness=wit, witness_text=P.render_tokens(vocab, wit), in_source=ina, in_tables=inb, confirmed=(ina != inb))
            elif st != "unsat":
                r["language"]["reason"] = str(wit)
    try:
        G = gtab.GTab(T, task["N"])
        comp = G.check_completeness(timeout_ms=task.get("timeout_ms", 300000))
    except RuntimeError as e:
        return dict(r, status="cyclic", error=str(e)[:200])
    r["completeness"] = comp
    if comp["status"] == "sat":
        w = comp["witness"]
        sent = C.derives_brute(T.prods, T.start, {i: i for i in T.term_ids}, w) if w else (T.start in C.NormalForm(T.prods).nullable)
        sim, why = ll_sim(T, w)
        comp["is_sentence_of_exported_grammar"] = sent
        comp["table_driven_parser_accepts"] = sim
        comp["table_driven_parser_reason"] = why
        comp["confirmed"] = bool(sent and not sim)
        comp["witness_terminals"] = [T.term_keys[t]["pattern"] for t in w]
        lex = [literal_lexeme(T.term_keys[t]) for t in w]
        comp["witness_text"] = " ".join(lex) if all(x is not None for x in lex) else None
    if task.get("exactness"):
        try:
            r["exactness"] = G.check_exactness(timeout_ms=20000, max_paths=task.get("max_paths", 300))
        except RuntimeError as e:
            r["exactness"] = {"error": str(e)[:200]}
    r["wall_s"] = round(time.time() - t0, 2)
    return r


def run_tables(tasks, jobs=14, per_task_timeout=900):
    """A task that does not come back within the limit (or whose worker dies) is reported as such -
    the check then ends inconclusive instead of hanging."""
    import multiprocessing as mp
    out = [None] * len(tasks)
    ctx = mp.get_context("fork")
    with ctx.Pool(processes=jobs, maxtasksperchild=20) as pool:
        handles = [pool.apply_async(one, (t,)) for t in tasks]
        deadline = time.time() + per_task_timeout + 60 * (1 + len(tasks) // max(1, jobs))
        for i, h in enumerate(handles):
            try:
                out[i] = h.get(timeout=max(5, min(per_task_timeout, deadline - time.time())))
            except Exception as e:
                out[i] = dict(tasks[i], status="worker_failed", error="%s: %s" % (type(e).__name__, str(e)[:200]), reason="worker failed or timed out")
        pool.terminate()
    return out
