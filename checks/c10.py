"""C10 - left factoring preserves the language and removes shared prefixes (engine G)."""
import os
from engine_g.par_reader import read_par
from engine_g import pipeline as P
from lib.common import parol_bin, BUILD, sh, VERIF
from checks import g_lang as GL


def pick(a):
    if not a.get("u") or not a.get("e"):
        return None
    if read_par(a["grammar"]).is_lalr():
        return None
    return (a["u"], a["e"])


def structural(u_path, e_path):
    ge = read_par(e_path)
    issues = []
    first = {}
    # symbols are compared together with their AST-control decoration (^, @name, :Type), as parol's
    # own factoring does: `'d'@m5` and `'d'` cannot be merged without changing the generated AST
    deco = ge.bnf_deco if (ge.is_plain_bnf() and len(ge.bnf_deco) == len(ge.bnf)) else [[""] * len(r) for _, r in ge.bnf]
    for (lhs, rhs), d in zip(ge.bnf, deco):
        if rhs:
            k = (lhs, rhs[0], d[0])
            first[k] = first.get(k, 0) + 1
    for (lhs, sym, _d), c in sorted(first.items(), key=str):
        if c > 1:
            issues.append({"key": "prefix:%s:%s" % (lhs, sym[1] if sym[0] == "N" else P.repr_key(sym[1])),
                           "text": "%d non-empty alternatives of %s still start with %s after left factoring" % (c, lhs, sym[1] if sym[0] == "N" else P.repr_key(sym[1]))})
    seen = set()
    for lhs, rhs in ge.bnf:
        k = (lhs, tuple(rhs))
        if k in seen:
            issues.append({"key": "dup:%s" % lhs, "text": "duplicate production of %s after left factoring" % lhs})
        seen.add(k)
    return issues


def left_factor_subcommand(N):
    """The public `parol left-factor` sub-command on the committed BNF grammars."""
    parol = parol_bin()
    out = []
    d = os.path.join(BUILD, "gen", "leftfactor")
    os.makedirs(d, exist_ok=True)
    import glob
    for f in sorted(glob.glob(os.path.join(VERIF, "grammars", "*.par"))):
        g = read_par(f)
        if g.is_lalr() or not g.is_plain_bnf():
            continue
        o = os.path.join(d, os.path.basename(f))
        rc, txt = sh([parol, "left-factor", "-f", f, "-o", o], timeout=120)
        if rc == 0 and os.path.exists(o):
            out.append({"grammar": f, "a": f, "b": o, "N": N, "label": "BNF vs parol left-factor", "per_nt": True})
    return out


FUNCS = ["transformation::left_factoring::left_factor", "left_factoring::find_prefix", "left_factoring::factor_out", "utils::generate_name", "conversions::par::render_par_string"]


def main():
    run = GL.lang_main("C10", pick, structural, "the canonicalised grammar (parol -u)", "the left-factored grammar (parol -e)", FUNCS,
                       "for every LL corpus grammar the solver decides, over ALL token strings of length <= N, that the grammar before (parol -u) and after (parol -e) the real left factoring have the same bounded language, for the start symbol and for every pre-existing non-terminal (a suffix name that clashes changes that non-terminal's language); the output is also checked to have no two non-empty alternatives with the same first symbol; termination is observed as completion of the real run",
                       extra_tasks=left_factor_subcommand)
    return run.finish()


def replay(path):
    return GL.lang_replay(path, pick, structural)
