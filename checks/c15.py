"""C15 - comment tokens end exactly at the first end delimiter (engine R).

Real code in the loop: parol::generators::ScannerConfig::generate_build_information ->
format_block_comment / the line-comment formatter and TerminalKind::expand, called natively by
/verif/engine_r/driver for each delimiter pair; the emitted regex is the artifact.  z3's regular
expression theory decides, over ALL strings, whether the language of the emitted regex equals
   start . { w : w ends with `end`, and `end` occurs nowhere else in w }
(a prefix-free language, so under the scanner's longest-match rule the comment token is exactly
"start up to the first end").  Witnesses are replayed on the real scnr2 scanner.
"""
import os, json, itertools, random, time, concurrent.futures as cf
import z3
from lib.common import Run, BUILD, REPO, VERIF, tier, seed, sh, build_native, known_for, log
from lib import scanreplay as SR
from engine_r import rx as RX

DRIVER = os.path.join(VERIF, "engine_r", "driver")
GRAMMAR = '%start S %% S: "zz";'
STARTS = ["/*", "(*", "<!--", "{-", "#|", "a", "ab"]
END_ALPHABET = ["a", "b", "*", "/", "-", ">", ")", "]", "^", "\\"]


def driver_bin():
    sh(["cp", os.path.join(REPO, "Cargo.lock"), DRIVER])
    rc, out = sh(["cargo", "build", "--offline"], cwd=DRIVER, env={"CARGO_TARGET_DIR": os.path.join(BUILD, "target")}, timeout=3600)
    if rc != 0:
        raise RuntimeError("engine R driver build failed:\n" + out[-3000:])
    return os.path.join(BUILD, "target", "debug", "rdriver")


def ask_driver(reqs):
    p = driver_bin()
    inp = "\n".join(json.dumps(r) for r in reqs) + "\n"
    rc, out = sh([p], input=inp, timeout=1800)
    lines = [json.loads(l) for l in out.splitlines() if l.startswith("{")]
    consts = lines[0]["constants"]
    return consts, {l["id"]: l for l in lines[1:]}


def family():
    ends = []
    for n in (1, 2, 3):
        for t in itertools.product(END_ALPHABET, repeat=n):
            ends.append("".join(t))
    pairs = [(s, e) for s in STARTS for e in ends]
    rnd = random.Random(seed())
    if tier() == "quick":
        # every 1- and 2-character end for every start + a seeded sample of the 3-character ends
        base = [p for p in pairs if len(p[1]) <= 2]
        rest = [p for p in pairs if len(p[1]) == 3]
        rnd.shuffle(rest)
        pairs = base + rest[:150]
    return pairs


def correct_block(s, e):
    """start . ( (ANY* e)  minus  (ANY* e ANY+) )"""
    E = RX.lit(e)
    ends_with = z3.Concat(RX.ANYSTAR, E)
    earlier = z3.Concat(RX.ANYSTAR, E, z3.Plus(RX.ANY))
    return z3.Concat(RX.lit(s), z3.Intersect(ends_with, z3.Complement(earlier)))


def decide_block(task):
    sid, s, e, rxs = task
    try:
        R = RX.to_re(rxs)
    except RX.RxError as ex:
        return dict(id=sid, s=s, e=e, rx=rxs, status="translate_error", error=str(ex))
    Cc = correct_block(s, e)
    out = dict(id=sid, s=s, e=e, rx=rxs, status="ok", queries=2)
    t0 = time.time()
    st, w = RX.solve_member(lambda x: [z3.InRe(x, R), z3.Not(z3.InRe(x, Cc))], timeout_ms=30000)
    out["overrun"] = (st, RX.z3_unescape(w) if st == "sat" else w)
    st2, w2 = RX.solve_member(lambda x: [z3.InRe(x, Cc), z3.Not(z3.InRe(x, R))], timeout_ms=30000)
    out["missed"] = (st2, RX.z3_unescape(w2) if st2 == "sat" else w2)
    out["solver_s"] = round(time.time() - t0, 3)
    return out


def decide_line(task):
    sid, s, rxs = task
    try:
        R = RX.to_re(rxs)
    except RX.RxError as ex:
        return dict(id=sid, s=s, rx=rxs, status="translate_error", error=str(ex))
    # inputs without a bare CR: every \r is followed by \n
    X = z3.Star(z3.Union(RX.ranges_re(RX.negate([(13, 13)])), RX.lit("\r\n")))
    body = z3.Star(RX.ranges_re(RX.negate([(10, 10), (13, 13)])))
    starts = s if isinstance(s, (list, tuple)) else [s]     # several %line_comment directives: union
    alts = [z3.Concat(RX.lit(x), body, z3.Option(z3.Union(RX.lit("\r\n"), RX.lit("\n")))) for x in starts]
    Cc = alts[0] if len(alts) == 1 else z3.Union(*alts)
    out = dict(id=sid, s=s, rx=rxs, status="ok", queries=2)
    t0 = time.time()
    st, w = RX.solve_member(lambda x: [z3.InRe(x, X), z3.InRe(x, R), z3.Not(z3.InRe(x, Cc))], timeout_ms=30000)
    out["overrun"] = (st, RX.z3_unescape(w) if st == "sat" else w)
    st2, w2 = RX.solve_member(lambda x: [z3.InRe(x, X), z3.InRe(x, Cc), z3.Not(z3.InRe(x, R))], timeout_ms=30000)
    out["missed"] = (st2, RX.z3_unescape(w2) if st2 == "sat" else w2)
    out["solver_s"] = round(time.time() - t0, 3)
    return out


def first_end(s, e, text):
    """expected comment token length for an input that starts with s (None: no complete comment)"""
    if not text.startswith(s):
        return None
    i = text.find(e, len(s))
    return None if i < 0 else i + len(e)


# ---- classes of recorded findings (see /verif/known_findings.json); anything outside is a VIOLATION
def finding_class(s, e, kind):
    atoms = list(e)
    if s == "/*" and e == "*/":
        return "format_block_comment:c-style-special-case"
    if len(atoms) == 3 and not (atoms[0] == atoms[1] == atoms[2]):
        # the generic 3-atom construction forgets that the character that ends a partial match of
        # the end delimiter may itself begin a new match
        return "format_block_comment:three-atom-end-not-all-equal"
    return None


def selftest_translator(consts):
    """Translator validation on this run: the repo's own scan_test! vectors (pattern, input,
    expected spans) from scanner_config.rs must agree with z3 membership + longest match."""
    import re
    src = open(os.path.join(REPO, "crates/parol/src/generators/scanner_config.rs"), encoding="utf-8").read()
    n = bad = 0
    for m in re.finditer(r'scan_test!\(\s*\w+,\s*\w+,\s*\w+,\s*r(#*)"(.*?)"\1,\s*r?(#*)"((?:[^"\\]|\\.)*?)"\3,\s*&\[(.*?)\],\s*"', src, flags=re.S):
        pat, inp, exp = m.group(2), m.group(4), m.group(5)
        if not m.group(0).count('r' + m.group(3) + '"' + inp):   # non-raw input string: unescape
            inp = bytes(inp, "utf-8").decode("unicode_escape")
        spans = [(int(a), int(b)) for a, b in re.findall(r'\(\s*r?#*"(?:[^"\\]|\\.)*"#*\s*,\s*(\d+)\s*,\s*(\d+)\s*\)', exp)]
        try:
            R = RX.to_re(pat)
        except RX.RxError:
            continue
        # leftmost-longest scan with z3 membership
        got, pos = [], 0
        data = inp
        while pos < len(data):
            best = None
            for end in range(len(data), pos, -1):
                s = z3.Solver()
                s.add(z3.InRe(z3.StringVal(data[pos:end]), R))
                if s.check() == z3.sat:
                    best = end
                    break
            if best is None:
                pos += 1
            else:
                got.append((len(data[:pos].encode()), len(data[:best].encode())))
                pos = best
        n += 1
        if got != spans:
            bad += 1
            log("translator self-test mismatch: %r on %r: expected %s got %s" % (pat, inp, spans, got))
    return n, bad


def main():
    run = Run("C15", "translation_validation")
    pairs = family()
    reqs = []
    for i, (s, e) in enumerate(pairs):
        reqs.append({"id": i, "grammar": GRAMMAR, "block": [["raw", s, "raw", e]], "line": []})
    line_starts = ["//", "#", "--", ";", "%", "REM", "a", "'"]
    # single delimiters and configurations with two / three %line_comment directives
    line_starts = line_starts + [("//", "#"), ("#", "//"), ("--", ";", "REM"), ("%", "a")]
    for j, s in enumerate(line_starts):
        ls = [s] if isinstance(s, str) else list(s)
        reqs.append({"id": 100000 + j, "grammar": GRAMMAR, "block": [], "line": [["raw", x] for x in ls]})
    consts, resp = ask_driver(reqs)
    n_vec, bad_vec = selftest_translator(consts)
    if bad_vec:
        run.inconc("regex translator disagrees with %d of %d scan_test! vectors of the repository" % (bad_vec, n_vec))
    tasks, rejected = [], 0
    for i, (s, e) in enumerate(pairs):
        r = resp.get(i)
        if not r or not r.get("ok"):
            rejected += 1
            continue
        rxs = [t[0] for t in r["terminals"] if t[1] == 4][0]
        tasks.append((i, s, e, rxs))
    ltasks = []
    for j, s in enumerate(line_starts):
        r = resp.get(100000 + j)
        if r and r.get("ok"):
            ltasks.append((100000 + j, s, [t[0] for t in r["terminals"] if t[1] == 3][0]))
    with cf.ProcessPoolExecutor(max_workers=15) as ex:
        bres = list(ex.map(decide_block, tasks, chunksize=8))
        lres = list(ex.map(decide_line, ltasks))
    # collect witnesses, replay on the real scanner in one batch
    cases, meta = [], []
    queries = 0
    tsolver = 0.0
    for r in bres + lres:
        if r["status"] != "ok":
            run.inconc("%s: %s" % (r.get("rx"), r.get("error")))
            continue
        queries += r["queries"]
        tsolver += r["solver_s"]
        for kind in ("overrun", "missed"):
            st, w = r[kind]
            if st == "sat":
                cases.append({"tokens": [(r["rx"], 4)], "input": w})
                meta.append((r, kind, w))
            elif st != "unsat":
                run.inconc("%s / %s: solver %s (%s)" % (r["s"], r.get("e", "<line>"), st, w))
    known = {f["key"]: f for f in known_for("C15")}
    known_seen = {}
    programs = len([r for r in bres + lres if r["status"] == "ok"])
    disagreements = len(cases)
    samples = []
    # native replay: every witness outside the recorded classes (capped), a few representatives per recorded class
    keep, per_class = [], {}
    for idx, (r, kind, w) in enumerate(meta):
        cls = finding_class(r["s"], r.get("e"), kind) if r.get("e") is not None else None
        if cls and cls in known:
            per_class[cls] = per_class.get(cls, 0) + 1
            if per_class[cls] <= 12:
                keep.append(idx)
        elif len([k for k in keep]) < 400:
            keep.append(idx)
        else:
            run.inconc("too many witnesses to replay natively; %r / %r not replayed" % (r["s"], r.get("e")))
    not_replayed_known = sum(per_class.values()) - sum(min(v, 12) for v in per_class.values())
    cases = [cases[i] for i in keep]
    meta = [meta[i] for i in keep]
    if cases:
        scans, info = SR.scan_batch(cases)
        if scans is None:
            run.inconc("native scanner replay could not be built: %s" % info[-400:])
            scans = [None] * len(cases)
        for (r, kind, w), sc in zip(meta, scans):
            s, e = r["s"], r.get("e")
            if e is None:
                exp_len = None
                # line comment: token = start .. first line break inclusive
                st_list = [s] if isinstance(s, str) else list(s)
                hit = [x for x in st_list if w.startswith(x)]
                if hit:
                    k = len(max(hit, key=len))
                    while k < len(w) and w[k] not in "\r\n":
                        k += 1
                    if w.startswith("\r\n", k):
                        k += 2
                    elif k < len(w):
                        k += 1
                    exp_len = k
            else:
                exp_len = first_end(s, e, w)
            exp_bytes = None if exp_len is None else len(w[:exp_len].encode())
            got = None
            if sc is not None:
                got = sc[0][1] if (sc and sc[0][0] == 0) else None
            reproduced = (sc is not None) and (got != exp_bytes)
            cls = finding_class(s, e, kind) if e is not None else None
            desc = "start %r end %r: emitted regex %s; input %r: real scanner's first token ends at byte %s, the first end delimiter ends at byte %s" % (
                s, e, r["rx"], w, got, exp_bytes)
            if len(samples) < 8:
                samples.append({"start": s, "end": e, "regex": r["rx"], "witness": w, "kind": kind, "scanner_token_end": got, "expected_end": exp_bytes, "reproduced": reproduced})
            if not reproduced:
                run.inconc("witness does not reproduce on the real scanner (translator defect?): " + desc)
                continue
            if cls and cls in known:
                known_seen.setdefault(cls, []).append((s, e, w))
            else:
                run.violation(desc, {"start": s, "end": e, "regex": r["rx"], "witness": w, "kind": kind, "class": cls})
    for cls, lst in known_seen.items():
        run.known("%s  [%d delimiter pairs of this class reproduced in this run, e.g. start %r end %r input %r]" % (known[cls]["what"], len(set((a, b) for a, b, _ in lst)), lst[0][0], lst[0][1], lst[0][2]))
    if not samples:
        samples = [{"start": t[1], "end": t[2], "regex": t[3], "verdict": "language equals start.(first-end language): both inclusion queries unsat"} for t in tasks[:4]]
    run.cov.update({
        "programs": programs, "disagreements_checked": disagreements, "samples": samples,
        "block_delimiter_pairs": len(tasks), "pairs_rejected_by_parol": rejected, "line_comment_starts": len(ltasks),
        "witnesses_of_recorded_classes_not_individually_replayed": not_replayed_known,
        "queries_discharged": queries, "solver": "z3 %s (sequence/regex theory), inputs = all strings (unbounded)" % z3.get_version_string(),
        "solver_time_s": round(tsolver, 2), "translator_selftest_vectors": n_vec, "translator_selftest_mismatches": bad_vec,
        "functions_in_loop": ["generators::scanner_config::ScannerConfig::generate_build_information", "ScannerConfig::format_block_comment", "grammar::symbol::TerminalKind::expand"],
        "explanation": "per delimiter pair two regular-language inclusion queries over all strings: L(emitted regex) subset of start.(w ending at the first end) and the converse; line comments: L = start.[^\\r\\n]*.(\\r\\n|\\n)? on inputs without a bare CR",
    })
    run.assume("delimiter family: starts %s x every end of 1..3 characters over %s, raw ('..') spelling; other delimiters are outside the claim" % (STARTS, END_ALPHABET),
               "a bare CR as line end is outside the line-comment claim ('.' matches CR in the emitted pattern)",
               "trusted: regex->z3 translator (validated on this run against the repository's scan_test! vectors, every witness replayed on the real scnr2 scanner), scnr2's leftmost-longest rule")
    return run.finish()


def replay(path):
    obj = json.load(open(path))["replay"]
    consts, resp = ask_driver([{"id": 0, "grammar": GRAMMAR, "block": [["raw", obj["start"], "raw", obj["end"]]], "line": []}])
    rxs = [t[0] for t in resp[0]["terminals"] if t[1] == 4][0]
    scans, info = SR.scan_batch([{"tokens": [(rxs, 4)], "input": obj["witness"]}])
    exp = first_end(obj["start"], obj["end"], obj["witness"])
    exp = None if exp is None else len(obj["witness"][:exp].encode())
    got = scans[0][0][1] if scans and scans[0] and scans[0][0][0] == 0 else None
    print("regex", rxs, "scanner token end", got, "expected", exp)
    return 1 if got != exp else 0
