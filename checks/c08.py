"""C08 - runtime production prediction is exact, also on erroneous input (engine K)."""
import os, json, struct
from lib.common import Run, BUILD, REPO, VERIF, sh, tier
from lib.kcheck import H, run_property
from lib import kani

CRATE = os.path.join(REPO, "crates", "parol_runtime")
TARGET = os.path.join(BUILD, "kani-rt")
M = "verif_kani::c08_eval::"
F = ["crates/parol_runtime/src/parser/lookahead_dfa.rs::LookaheadDFA::eval"]
STUBS = ["TokenStream::lookahead_token_type -> cursor over a symbolic array of k token types (the real stream always pads the buffer to k tokens with EOI)",
         "TokenStream::token_types -> empty (trace output only)", "std::fmt::format -> empty String (diagnostic text)"]
CONTRACT = ("table satisfies the generator contract: sorted by (from, terminal), deterministic, forward edges only, "
            "accepting states have no successors, prod0 valid iff no transitions; terminals are EOI or user tokens (>= 5)")
STREAM = "lookahead tokens: skip-token types 1..=4 never occur; EOI only as trailing padding"

TABLE_GRAMMARS = {"anbn": "ll_anbn", "k2": "ll_k2", "k3": "ll_k3", "unite": "ll_unite_order", "nullable": "ll_nullable_tail", "expr": "ll_expr",
                  "leftfactor": "ll_leftfactor", "k3_nt": "ll_k3_nt", "list_k2": "ll_list_k2", "k3_short": "ll_k3_short"}
TAB_HARNESSES = [H(M + "c08_tab_" + k, "every lookahead automaton that the freshly built parol generates for grammars/%s.par (concrete table), 4 symbolic tokens (EOI or 5..=16)" % g,
                   F, stubs=STUBS, assumes=[STREAM], timeout=1800) for k, g in TABLE_GRAMMARS.items()]
SYM_HARNESSES = [
    H(M + "c08_eval_symbolic_table_small", "symbolic table: <= 4 transitions, <= 4 states, automaton k <= 2, stream k <= 3, 4 symbolic u16 tokens",
      F, stubs=STUBS, assumes=[CONTRACT, STREAM], timeout=3600),
    H(M + "c08_eval_symbolic_table_k3", "symbolic table: <= 3 transitions, <= 4 states, automaton k <= 3, stream k <= 3, 4 symbolic u16 tokens",
      F, stubs=STUBS, assumes=[CONTRACT, STREAM], timeout=3600),
    H(M + "c08_eval_symbolic_table", "symbolic table: <= 6 transitions, <= 5 states, automaton k <= 3, stream k <= 3, 4 symbolic u16 tokens",
      F, stubs=STUBS, assumes=[CONTRACT, STREAM], timeout=2400, tiers=("thorough",)),
    H(M + "c08_twin_must_fail", "vacuity twin", F, expect="fail", stubs=STUBS),
]

REPLAY_CRATE = os.path.join(VERIF, "replay", "eval_replay")


def _le(b):
    return int.from_bytes(bytes(b), "little")


def _sle(b):
    v = _le(b)
    return v - (1 << (8 * len(b))) if v >= 1 << (8 * len(b) - 1) else v


def decode_symbolic_table(vecs):
    """Order of kani::any() calls in c08_eval_symbolic_table."""
    it = iter([v["bytes"] for v in vecs])
    n = _le(next(it)); nstates = _le(next(it)); k = _le(next(it))
    trans = []
    for _ in range(6):
        f = _le(next(it)); t = _le(next(it)); to = _le(next(it)); p = _sle(next(it))
        trans.append((f, t, to, p))
    prod0 = _sle(next(it))
    la = next(it)
    la = [_le(la[i:i + 2]) for i in range(0, 8, 2)] if len(la) == 8 else [_le(la)] + [_le(next(it)) for _ in range(3)]
    stream_k = _le(next(it))
    return {"n": n, "nstates": nstates, "k": k, "trans": trans[:n], "prod0": prod0, "la": la, "stream_k": stream_k}


def reference(prod0, trans, k, la):
    state, acc = 0, (prod0 if prod0 > -1 else None)
    for i in range(k):
        hit = [t for t in trans if t[0] == state and t[1] == la[i]]
        if not hit:
            break
        state = hit[0][2]
        if hit[0][3] > -1:
            acc = hit[0][3]
    return acc


def native_eval(case):
    """Order-preserving renaming of terminal values into the replay scanner's alphabet, then the
    real eval on a real TokenStream."""
    vals = sorted(set([t[1] for t in case["trans"]] + case["la"]) - {0})
    if len(vals) > 26:
        return None, "too many distinct terminals for the replay scanner"
    ren = {v: 5 + i for i, v in enumerate(vals)}
    ren[0] = 0
    la = [ren[x] for x in case["la"][:case["stream_k"]]]
    toks = []
    for x in la:
        if x == 0:
            break
        toks.append(x)
    args = [case["k"], case["stream_k"], case["prod0"], len(case["trans"])]
    for t in case["trans"]:
        args += [t[0], ren[t[1]], t[2], t[3]]
    args += [len(toks)] + toks
    sh(["cp", os.path.join(REPO, "Cargo.lock"), REPLAY_CRATE])
    rc, out = sh(["cargo", "build", "--offline", "--manifest-path", os.path.join(REPLAY_CRATE, "Cargo.toml")],
                 env={"CARGO_TARGET_DIR": os.path.join(BUILD, "replay-target")}, timeout=1800)
    if rc != 0:
        return None, out[-1500:]
    rc, out = sh([os.path.join(BUILD, "replay-target", "debug", "eval_replay")] + [str(a) for a in args], timeout=60)
    res = None
    for l in out.splitlines():
        if l.startswith("RESULT Ok"):
            res = int(l.split()[2])
        elif l.startswith("RESULT Err"):
            res = "Err"
    return res, " ".join(str(a) for a in args)


def decode_tables(vecs):
    """c08_tab_*: one [u16; 4] per automaton, in order; the failing automaton is not named by the
    values, so every (automaton, tokens) pair is replayed natively."""
    out, single = [], []
    for v in vecs:
        b = v["bytes"]
        if len(b) == 8:
            out.append([_le(b[i:i + 2]) for i in range(0, 8, 2)])
        elif len(b) == 2:
            # Kani may report the [u16; 4] element-wise
            single.append(_le(b))
            if len(single) == 4:
                out.append(single)
                single = []
    return out


def replayer(h, hr, target_dir, package):
    src, vecs = kani.values_from_text(hr.raw or "")
    out = hr.raw or ""
    if not vecs:
        src, vecs, out = kani.concrete_values(CRATE, h.name, target_dir)
    if not vecs:
        return None, {"error": "no concrete values", "tail": out[-1500:]}
    if "symbolic_table_small" in h.name or "symbolic_table" in h.name:
        pass
    if "c08_tab_" in h.name:
        from engine_g.rs_tables import RsTables
        from lib import coretables
        g = TABLE_GRAMMARS[h.name.split("c08_tab_")[1]]
        import glob
        las = decode_tables(vecs)
        arts = [a for a in glob.glob(os.path.join(BUILD, "gen-cache", "*", g + "_*_p", "parser.rs"))]
        T = RsTables(sorted(arts, key=os.path.getmtime)[-1])
        for (nt, a), la in zip(T.automata.items(), las):
            case = {"n": len(a["trans"]), "k": a["k"], "trans": [list(t) for t in a["trans"]], "prod0": a["prod0"], "la": la, "stream_k": max(1, T.max_k or 1)}
            exp = reference(case["prod0"], case["trans"], case["k"], la[:case["stream_k"]] + [0] * 4)
            got, argline = native_eval(case)
            if got is None:
                continue
            if (got == "Err" and exp is not None) or (got != "Err" and got != exp):
                return True, {"harness": h.name, "values": vecs, "case": case, "non_terminal": nt, "expected": exp, "native_result": got, "native_args": argline}
        return False, {"harness": h.name, "values": vecs, "note": "no automaton/token pair reproduced natively"}
    try:
        case = decode_symbolic_table(vecs)
    except Exception as e:
        return None, {"error": "cannot decode counterexample: %r" % e, "values": vecs}
    la_k = case["la"][:case["stream_k"]] + [0] * 4
    exp = reference(case["prod0"], case["trans"], case["k"], la_k)
    got, argline = native_eval(case)
    obj = {"harness": h.name, "values": vecs, "case": case, "expected": exp, "native_result": got, "native_args": argline}
    if got is None:
        return None, obj
    violated = (got == "Err" and exp is not None) or (got != "Err" and got != exp)
    return violated, obj


def main():
    from lib import coretables
    info = coretables.ensure()
    # phase A: generated tables, in parallel; phase B: symbolic table, sequential with playback
    run = run_property("C08", "model_checking", TAB_HARNESSES, CRATE, TARGET, replayer, jobs=9)
    cov_a = dict(run.cov)
    run = run_property("C08", "model_checking", SYM_HARNESSES, CRATE, TARGET, replayer, jobs=1, playback=True, run=run)
    run.cov["harnesses"] = cov_a["harnesses"] + run.cov["harnesses"]
    for k in ("evaluations", "distinct_nontrivial", "queries_discharged", "solver_time_s", "kani_wall_s"):
        run.cov[k] = round(cov_a[k] + run.cov[k], 2) if isinstance(run.cov[k], float) or isinstance(cov_a[k], float) else cov_a[k] + run.cov[k]
    run.cov["samples"] = (cov_a["samples"] + run.cov["samples"])[:8]
    run.cov["generated_tables"] = info
    run.assume("bounded claim: (a) every automaton generated for the 10 committed corpus grammars, all buffers of 4 tokens; (b) every automaton with <= 6 transitions / <= 5 states / k <= 3 that satisfies the generator contract; larger automata are outside the claim",
               "counterexamples are replayed natively: real LookaheadDFA::eval on a real TokenStream with a scnr2 scanner (/verif/replay/eval_replay)")
    return run.finish()


def replay(path):
    obj = json.load(open(path))["replay"]
    got, args = native_eval(obj["case"])
    print("expected", obj["expected"], "native", got, "args", args)
    violated = (got == "Err" and obj["expected"] is not None) or (got != "Err" and got != obj["expected"])
    return 1 if violated else 0
