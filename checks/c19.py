"""C19 - mechanism-level (one-step / kernel) Kani harnesses; see checks/steps_common.py and DESIGN.md."""
from checks.steps_common import *

ASSUME = {
 "C02": ["claimed (LL mechanism): push_production pushes the end-of-production marker and the stored right-hand side, opens exactly one tree node (none when trimmed) and one production entry; process_item_stack hands the semantic action exactly one entry per right-hand-side symbol, in grammar order, taken from the top of the tree stack, once per marker and never in recovery mode; split_off / pop_n (the routines LL and LR reductions use) return the right entries in order. NOT claimed: that a whole parse visits productions in leftmost-derivation order, LR call_action itself (did not finish in 25 min under CBMC)"],
 "C17": ["claimed (kernel): the skip classification used by the token buffer, the LL loop and the LR tree stack is one and the same function of (token type, state_skip) - built-in skip tokens, INVALID tokens and %skip-listed tokens are all skipped, comments are always skipped; pop_n never counts an entry whose predicate is false and keeps it inside the popped range. NOT claimed: TokenBuffer filtering (a concrete add + take_skip_tokens needs 460 s, a symbolic span did not finish), comment callbacks over a whole run, that call_action passes the effective classification as predicate (harness did not finish)"],
 "C19": ["claimed: no panic, index or arithmetic overflow (Kani's default checks, dev profile) and termination within the unwinding bound for push_production, process_item_stack, pop_n, split_off and token classification from every pre-state of the stated families. NOT claimed: whole input texts, recovery through petgraph, the 100-error limit (add_error ran out of memory under CBMC), the LR loop"],
 "C20": ["claimed (LL mechanism): trimming changes tree-builder calls only (same stack effect, same action call); the depth counter skips push productions and MaxParsingDepthExceeded is returned exactly when the counter exceeds the limit, never without a limit; recovery mode suppresses action calls only. NOT claimed: equality of whole-run outcomes across option sets, the LR depth limit"],
}


def main():
    return run("C19", ll_push() + ll_process() + add_error() + split_off() + pop_n() + skip_classification() + twins(('ll','ker')), ASSUME["C19"])


def replay(path):
    import json
    from checks.steps_common import _pb
    obj = json.load(open(path))["replay"]
    ok, out = _pb(obj["harness"], obj["playback_test"])
    print(out[-2500:])
    return 1 if ok else 0
