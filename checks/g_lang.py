"""Shared driver for the language-preservation checks C09 / C10 / C12 (engine G)."""
import os, json, time, random, concurrent.futures as cf
from lib.common import Run, BUILD, REPO, VERIF, parol_bin, tier, seed, log, flock, known_for
from engine_g import pipeline as P
from engine_g.par_reader import read_par
from engine_g import cfg_sat as C

QUICK_SET_DIRS = ("/verif/grammars/", "/repo/examples/", "/repo/crates/parol/src/parser/", "/repo/crates/parol-ls/parol_ls.par",
                  "/repo/crates/parol/data/valid/")


def select(files):
    if tier() == "thorough":
        return files
    return [f for f in files if any(f.startswith(d) for d in QUICK_SET_DIRS)]


def generate(files, k=5, want_parser=False):
    parol = parol_bin()
    with flock("gen-cache"):
        return P.artifacts(parol, files, k=k, want_parser=want_parser)


def compare_one(task):
    """task: dict(grammar, a_path, b_path, N, label).  Runs in a worker process."""
    import z3
    t0 = time.time()
    try:
        ga = read_par(task["a"])
        gb = read_par(task["b"])
    except Exception as e:
        return dict(task, status="reader_error", error=repr(e)[:400])
    vocab = P.union_vocab(ga, gb)
    st, wit, dt = P.lang_diff(ga.bnf, ga.start, gb.bnf, gb.start, vocab, task["N"], timeout_ms=task.get("timeout_ms", 120000))
    r = dict(task, status=st, solver_s=round(dt, 3), wall_s=round(time.time() - t0, 3), terminals=len(vocab),
             prods_a=len(ga.bnf), prods_b=len(gb.bnf))
    if st == "sat":
        ina = C.derives_brute(ga.bnf, ga.start, vocab, wit) if len(wit) > 6 else (tuple(wit) in C.enumerate_sentences(ga.bnf, ga.start, vocab, len(wit)))
        inb = C.derives_brute(gb.bnf, gb.start, vocab, wit) if len(wit) > 6 else (tuple(wit) in C.enumerate_sentences(gb.bnf, gb.start, vocab, len(wit)))
        r.update(witness=wit, witness_text=P.render_tokens(vocab, wit), in_a=ina, in_b=inb, confirmed=(ina != inb))
    elif st == "unknown":
        r["reason"] = str(wit)
    return r


def run_pairs(tasks, jobs=14):
    with cf.ProcessPoolExecutor(max_workers=jobs) as ex:
        return list(ex.map(compare_one, tasks))


def validate_encoder(sample_files, N=4, limit=6):
    """Validation of the CFG->SAT encoder on this run: for a few small grammars compare the solver's
    membership verdict with the independent leftmost-derivation enumerator for ALL strings <= N."""
    import z3, itertools
    checked = 0
    for f in sample_files:
        g = read_par(f)
        if len(g.term_order) == 0 or len(g.term_order) > 4 or len(g.bnf) > 40:
            continue
        vocab = {k: i + 1 for i, k in enumerate(g.term_order)}
        toks, n, dom = C.token_vars(N, len(vocab))
        L = C.Lang(g.bnf, g.start, vocab, toks, n, N)
        sent = L.sentence()
        ref = C.enumerate_sentences(g.bnf, g.start, vocab, N)
        s = z3.Solver()
        s.add(dom)
        # the set of models of `sent` must be exactly `ref`
        s.push()
        s.add(sent)
        s.add(z3.And([z3.Not(z3.And([n == len(w)] + [toks[i] == w[i] for i in range(len(w))])) for w in ref]) if ref else z3.BoolVal(True))
        if s.check() != z3.unsat:
            return False, "encoder accepts a string the enumerator rejects for %s" % f
        s.pop()
        for w in ref:
            s.push()
            s.add(n == len(w))
            s.add([toks[i] == w[i] for i in range(len(w))])
            s.add(z3.Not(sent))
            if s.check() != z3.unsat:
                return False, "encoder rejects enumerated sentence %r of %s" % (w, f)
            s.pop()
        checked += 1
        if checked >= limit:
            break
    return True, checked
