"""Shared driver for the language-preservation checks C09 / C10 / C12 (engine G)."""
import os, json, time, random, concurrent.futures as cf
from lib.common import Run, BUILD, REPO, VERIF, parol_bin, tier, seed, log, flock, known_for
from engine_g import pipeline as P
from engine_g.par_reader import read_par
from engine_g import cfg_sat as C

QUICK_SET_DIRS = ("/verif/grammars/", "/verif/build/gen/gram/", "/repo/examples/", "/repo/crates/parol/src/parser/", "/repo/crates/parol-ls/parol_ls.par",
                  "/repo/crates/parol/data/valid/")


def select(files):
    if tier() == "thorough":
        return files
    return [f for f in files if any(f.startswith(d) for d in QUICK_SET_DIRS)]


def generate(files, k=5, want_parser=False):
    parol = parol_bin()
    with flock("gen-cache"):
        return P.artifacts(parol, files, k=k, want_parser=want_parser)


def compare_one(task):
    """task: dict(grammar, a_path, b_path, N, label).  Runs in a worker process."""
    import z3
    t0 = time.time()
    try:
        ga = read_par(task["a"])
        gb = read_par(task["b"])
    except Exception as e:
        return dict(task, status="reader_error", error=repr(e)[:400])
    vocab = P.union_vocab(ga, gb)
    nts = []
    if task.get("per_nt"):
        # every non-terminal of A (user-visible names) keeps its own language in B
        defined_b = set(l for l, _ in gb.bnf)
        nts = [x for x in ga.user_nts if x in defined_b]
    cross = {"tag": "g_%s" % abs(hash(task["grammar"]))} if task.get("crosscheck") else None
    # a solver time-out at N is retried at smaller bounds; the bound actually decided is recorded
    n_try = task["N"]
    while True:
        st, wit, dt = P.lang_diff(ga.bnf, ga.start, gb.bnf, gb.start, vocab, n_try, timeout_ms=task.get("timeout_ms", 120000), also_nts=nts, cross=cross)
        if st != "unknown" or n_try <= 6:
            break
        n_try -= 2
    task = dict(task, N=n_try, N_requested=task["N"])
    r = dict(task, status=st, second_opinion=({k: v for k, v in cross.items() if k != "tag"} if cross else None), solver_s=round(dt, 3), wall_s=round(time.time() - t0, 3), terminals=len(vocab),
             prods_a=len(ga.bnf), prods_b=len(gb.bnf), nts_compared=1 + len(nts))
    if st == "sat":
        sa, sb = ga.start, gb.start
        if isinstance(wit, tuple):
            wit, nt = wit
            sa = sb = nt
            r["non_terminal"] = nt
        ina = C.derives_brute(ga.bnf, sa, vocab, wit) if len(wit) > 6 else (tuple(wit) in C.enumerate_sentences(ga.bnf, sa, vocab, len(wit)))
        inb = C.derives_brute(gb.bnf, sb, vocab, wit) if len(wit) > 6 else (tuple(wit) in C.enumerate_sentences(gb.bnf, sb, vocab, len(wit)))
        r.update(witness=wit, witness_text=P.render_tokens(vocab, wit), in_a=ina, in_b=inb, confirmed=(ina != inb))
    elif st == "unknown":
        r["reason"] = str(wit)
    return r


def run_pairs(tasks, jobs=14, per_task_timeout=900):
    import multiprocessing as mp
    out = [None] * len(tasks)
    ctx = mp.get_context("fork")
    with ctx.Pool(processes=jobs, maxtasksperchild=20) as pool:
        handles = [pool.apply_async(compare_one, (t,)) for t in tasks]
        deadline = time.time() + per_task_timeout + 60 * (1 + len(tasks) // max(1, jobs))
        for i, h in enumerate(handles):
            try:
                out[i] = h.get(timeout=max(5, min(per_task_timeout, deadline - time.time())))
            except Exception as e:
                out[i] = dict(tasks[i], status="worker_failed", error="%s: %s" % (type(e).__name__, str(e)[:200]), reason="worker failed or timed out")
        pool.terminate()
    return out


def validate_encoder(sample_files, N=4, limit=6):
    """Validation of the CFG->SAT encoder on this run: for a few small grammars compare the solver's
    membership verdict with the independent leftmost-derivation enumerator for ALL strings <= N."""
    import z3, itertools
    checked = 0
    for f in sample_files:
        g = read_par(f)
        if len(g.term_order) == 0 or len(g.term_order) > 4 or len(g.bnf) > 40:
            continue
        vocab = {k: i + 1 for i, k in enumerate(g.term_order)}
        toks, n, dom = C.token_vars(N, len(vocab))
        L = C.Lang(g.bnf, g.start, vocab, toks, n, N)
        sent = L.sentence()
        ref = C.enumerate_sentences(g.bnf, g.start, vocab, N)
        s = z3.Solver()
        s.add(dom)
        # the set of models of `sent` must be exactly `ref`
        s.push()
        s.add(sent)
        s.add(z3.And([z3.Not(z3.And([n == len(w)] + [toks[i] == w[i] for i in range(len(w))])) for w in ref]) if ref else z3.BoolVal(True))
        if s.check() != z3.unsat:
            return False, "encoder accepts a string the enumerator rejects for %s" % f
        s.pop()
        for w in ref:
            s.push()
            s.add(n == len(w))
            s.add([toks[i] == w[i] for i in range(len(w))])
            s.add(z3.Not(sent))
            if s.check() != z3.unsat:
                return False, "encoder rejects enumerated sentence %r of %s" % (w, f)
            s.pop()
        checked += 1
        if checked >= limit:
            break
    return True, checked


def lang_main(prop, pick, structural, label_a, label_b, functions, explanation, N_quick=8, N_thorough=12,
              extra_tasks=None, per_nt=True):
    """pick(artifact) -> (a_path, b_path) or None.  structural(a_path, b_path) -> [issues]."""
    import z3
    run = Run(prop, "translation_validation")
    N = N_quick if tier() == "quick" else N_thorough
    files = select(P.corpus())
    random.Random(seed()).shuffle(files)
    arts = generate(files)
    ok, info = validate_encoder(sorted(f for f in files if f.startswith("/verif/grammars/")) or files)
    if not ok:
        run.inconc("encoder self-validation failed: %s" % info)
    tasks, skipped = [], []
    for a in arts:
        if a["rc"] != 0:
            skipped.append({"grammar": a["grammar"], "why": "rejected by parol (rc=%s)" % a["rc"]})
            continue
        pr = pick(a)
        if pr is None:
            continue
        tasks.append({"grammar": a["grammar"], "a": pr[0], "b": pr[1], "N": N, "label": "%s vs %s" % (label_a, label_b), "per_nt": per_nt,
                      "crosscheck": a["grammar"].startswith("/verif/grammars/")})
    if extra_tasks:
        tasks += extra_tasks(N)
    res = run_pairs(tasks)
    known = known_for(prop)
    samples, disagreements, programs = [], 0, 0
    tsolver = 0.0
    queries = 0
    crosschecked = 0
    for r in res:
        tsolver += r.get("solver_s", 0)
        queries += r.get("nts_compared", 1)
        so = r.get("second_opinion")
        if so:
            crosschecked += 1
            if so.get("agree") is False:
                run.inconc("%s: solvers disagree: %s" % (r["grammar"], so))
        if r["status"] == "unsat":
            programs += 1
            for i in structural(r["a"], r["b"]):
                disagreements += 1
                key = "%s|%s" % (os.path.basename(r["grammar"]), i["key"])
                k = [f for f in known if f["key"] == key]
                if k:
                    run.known(k[0]["what"])
                else:
                    run.violation("%s: %s" % (r["grammar"], i["text"]), {"grammar": r["grammar"], "issue": i, "kind": "structural", "a": r["a"], "b": r["b"]})
        elif r["status"] == "sat":
            disagreements += 1
            if r.get("confirmed"):
                what = "%s: token string [%s] is %s %s but %s %s%s" % (
                    r["grammar"], " ".join(r["witness_text"]), "in" if r["in_a"] else "not in", label_a,
                    "in" if r["in_b"] else "not in", label_b, (" (languages of non-terminal %s)" % r["non_terminal"]) if r.get("non_terminal") else "")
                run.violation(what, {"grammar": r["grammar"], "witness": r["witness"], "witness_text": r["witness_text"], "N": N,
                                     "kind": "language", "non_terminal": r.get("non_terminal")})
            else:
                run.inconc("%s: solver witness %s not confirmed by the independent derivation search (encoder defect)" % (r["grammar"], r["witness_text"]))
        else:
            run.inconc("%s: %s %s" % (r["grammar"], r["status"], r.get("reason", r.get("error", ""))))
        if len(samples) < 5 and r["status"] == "unsat":
            samples.append({"grammar": r["grammar"], "N": r["N"], "terminals": r["terminals"], "productions_" + label_a.replace(" ", "_"): r["prods_a"],
                            "productions_" + label_b.replace(" ", "_"): r["prods_b"], "non_terminals_compared": r.get("nts_compared"),
                            "query": "exists token string of length <= N in exactly one of the two languages", "verdict": "unsat", "solver_s": r["solver_s"]})
    run.cov.update({
        "programs": programs, "disagreements_checked": disagreements, "samples": samples or [{"note": "no grammar validated"}],
        "bound_N_tokens": N, "grammars_decided_at_a_smaller_bound": [(r["grammar"], r["N"]) for r in res if r.get("N_requested") and r["N"] != r["N_requested"]][:20],
        "grammars_in_corpus": len(files), "grammar_pairs": len(tasks), "skipped": skipped[:40], "skipped_count": len(skipped),
        "queries_discharged": queries, "solver": "z3 %s" % z3.get_version_string(), "solver_time_s": round(tsolver, 2),
        "queries_cross_checked_with_cvc5_and_z3_4_8_12": crosschecked,
        "encoder_selfcheck_grammars": info if ok else 0,
        "functions_in_loop": functions,
        "explanation": explanation,
    })
    run.assume("bounded: token strings of length <= %d per grammar; the programs quantifier is covered by the stated corpus only (%d grammars this run)" % (N, len(tasks)),
               "trusted: independent PAR reader and CFG->SAT encoder (self-validated on this run against a leftmost-derivation enumerator for all strings <= 4), z3")
    return run


def lang_replay(path, pick, structural):
    obj = json.load(open(path))["replay"]
    a = generate([obj["grammar"]])[0]
    pr = pick(a)
    if obj.get("kind") == "structural":
        iss = structural(pr[0], pr[1])
        print(iss)
        return 1 if any(i["key"] == obj["issue"]["key"] for i in iss) else 0
    r = compare_one({"grammar": a["grammar"], "a": pr[0], "b": pr[1], "N": max(obj.get("N", 6), len(obj["witness"])), "label": "replay", "per_nt": True})
    print({k: r.get(k) for k in ("status", "witness_text", "in_a", "in_b", "confirmed", "non_terminal")})
    return 1 if r["status"] == "sat" and r.get("confirmed") else 0
