"""C31 - recovery edit scripts are minimal and correct (engine K, in-crate harness)."""
import os, json
from lib.common import Run, BUILD, REPO, VERIF, tier
from lib.kcheck import H, run_property
from lib import kani

CRATE = os.path.join(REPO, "crates", "parol_runtime")
TARGET = os.path.join(BUILD, "kani-rt")
F = ["crates/parol_runtime/src/parser/recovery.rs::Recovery::levenshtein_distance"]
M = "verif_kani::c31_recovery::"


def harnesses():
    hs = []
    for n in range(0, 5):
        for m in range(0, 5):
            t = ("quick", "thorough") if (n <= 3 and m <= 3) else ("thorough",)
            hs.append(H(M + "c31_lev_%d_%d" % (n, m),
                        "|act|=%d, |exp|=%d, all element values (u16); minimality against every script of <= 8 operations chosen by the solver" % (n, m),
                        F, tiers=t, timeout=2400 if len(t) == 2 else 1500,
                        assumes=["lengths are concrete per harness (symbolic Vec lengths exhaust CBMC memory); contents symbolic"]))
    hs.append(H(M + "c31_twin_must_fail", "vacuity twin", F, expect="fail"))
    return hs


def native_replay(h, hr, target_dir, package):
    """The solver's trace for these harnesses is too large for Kani's playback extraction (the driver
    ran to 17 GB); the failing instance (|act|, |exp|) is instead confirmed natively: a generated
    unit test runs the REAL levenshtein_distance on every equality pattern of that instance
    (c31_recovery::native_confirm) through `cargo kani playback` = plain native execution."""
    import re
    m = re.search(r"c31_lev_(\d)_(\d)", h.name)
    if not m:
        return None, {"error": "not an instance harness"}
    n, k = int(m.group(1)), int(m.group(2))
    test = ("#[test]\nfn kani_concrete_playback_c31_native_%d_%d() {\n"
            "    if let Some((act, exp, d, reference, script_ok)) = super::c31_recovery::native_confirm(%d, %d) {\n"
            "        panic!(\"C31 native witness: act={:?} exp={:?} reported_distance={} minimal_distance={} script_valid_and_costs_distance={}\", act, exp, d, reference, script_ok);\n"
            "    }\n}\n" % (n, k, n, k))
    from lib.incrate import playback_incrate as pb
    ok, o = pb(CRATE, "parol_runtime", "super::c31_recovery", test, "rt")
    wit = re.search(r"C31 native witness: (.*)", o)
    return ok, {"harness": h.name, "instance": [n, k], "native_test": test, "witness": wit.group(1) if wit else None, "playback_tail": o[-800:]}


def playback_incrate(test_src):
    from lib.incrate import playback_incrate as pb
    return pb(CRATE, "parol_runtime", "super::c31_recovery", test_src, "rt")


def main():
    run = run_property("C31", "model_checking", harnesses(), CRATE, TARGET, native_replay, jobs=12)
    run.assume("bounded claim: sequences of length <= 3 (quick) / <= 4 (thorough); longer sequences are outside the claim",
               "minimal_token_difference (BTreeSet<Vec<_>> argument) is outside the claim")
    return run.finish()


def replay(path):
    obj = json.load(open(path))["replay"]
    ok, out = playback_incrate(obj.get("native_test") or obj["playback_test"])
    print(out[-3000:])
    return 1 if ok else 0
