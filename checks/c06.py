"""C06 - FIRST_k / FOLLOW_k sets printed by the real parol match their definitions (engine G).

Per transformed grammar and k the real `parol first` / `parol follow` are run; each printed set S is
compared with the definition by two solver queries over bounded derivations (z3):
  completeness (unsat required)  exists w (|w| <= N), X =>* w (resp. a sentence with an A-node followed
                                 by ...) whose k-truncated prefix (resp. k following tokens) is NOT in S
  soundness    (sat required)    for every tuple t in S: exists such a w whose k-prefix / k-follow IS t
"""
import os, re, json, time, random
from lib.common import Run, tier, seed, sh, parol_bin
from engine_g import pipeline as P
from engine_g import kdec, gtab, cfg_sat as C
from engine_g.par_reader import read_par
from checks import g_lang as GL, g_tab as GT
import z3

FUNCS = ["analysis::first::first_k", "analysis::follow::follow_k", "analysis::k_tuples::KTuples::{k_concat,union,insert}",
         "analysis::k_tuple::KTuple::k_concat", "analysis::k_decision::{FirstCache,FollowCache}::get", "bin/parol/tools/{first,follow}.rs (observation)"]
MAX_PRODS = 30


def parse_sets(out):
    """-> (per_production {idx: (nt, [tuple names])}, per_nt {nt: [tuple names]})"""
    per_prod, per_nt = {}, {}
    for line in out.splitlines():
        m = re.match(r"^\s+(\d+)\(([A-Za-z_0-9]+)\): \{(.*)\}\(k=\d+\)\s*$", line)
        if m:
            per_prod[int(m.group(1))] = (m.group(2), [[x.strip() for x in t.split(",")] if t.strip() else [] for t in re.findall(r"\[([^\]]*)\]", m.group(3))])
            continue
        m = re.match(r"^\s+([A-Za-z_0-9]+): \{(.*)\}\(k=\d+\)\s*$", line)
        if m:
            per_nt[m.group(1)] = [[x.strip() for x in t.split(",")] if t.strip() else [] for t in re.findall(r"\[([^\]]*)\]", m.group(2))]
    return per_prod, per_nt


def to_ids(tuples, names):
    out = set()
    for t in tuples:
        ids = []
        for x in t:
            if x == "ε":
                continue
            if x == "$":
                ids.append(0)
            elif x in names:
                ids.append(names[x])
            else:
                raise KeyError(x)
        out.add(tuple(ids))
    return out


def one(task):
    t0 = time.time()
    k, N = task["k"], task["N"]
    r = dict(task, status="ok", findings=[], undecided=[], queries=0, sets=0, tuples=0, samples=[])
    from engine_g.rs_tables import RsTables
    try:
        T = RsTables(task["parser"])
    except Exception as e:
        # the generated parser source is only the carrier of the terminal-name map here; a source this reader
        # cannot interpret means the grammar is skipped (listed in the evidence), not that the sets are wrong
        return dict(r, status="skip_reader", error=repr(e)[:120])
    if T.algorithm != "Llk":
        return dict(r, status="skip_lalr")
    if len(T.prods) > MAX_PRODS:
        return dict(r, status="skip_big")
    iss, _ = GT.align_terminals(T, task["e"])
    if iss:
        return dict(r, status="skip_unaligned", error=iss[0][:200])
    tn = list(getattr(T, "terminal_names", []))
    names = {}
    for i, nme in enumerate(tn):
        if i >= 5:
            if nme in names:
                return dict(r, status="skip_ambiguous_names")
            names[nme] = i
    rc1, o1 = sh([task["parol"], "first", "-f", task["e"], "-k", str(k)], timeout=120)
    rc2, o2 = sh([task["parol"], "follow", "-f", task["e"], "-k", str(k)], timeout=120)
    if rc1 != 0 or rc2 != 0:
        return dict(r, status="tool_failed", error=(o1 + o2)[-300:])
    fp, fn = parse_sets(o1)
    _, fo = parse_sets(o2)
    try:
        first_prod = {i: to_ids(v[1], names) for i, v in fp.items()}
        first_nt = {a: to_ids(v, names) for a, v in fn.items()}
        follow_nt = {a: to_ids(v, names) for a, v in fo.items()}
    except KeyError as e:
        return dict(r, status="skip_names", error="unknown terminal name %s" % e)
    nts = sorted(set(l for l, _ in T.prods))
    if len(fp) != len(T.prods) or any(fp[i][0] != T.prods[i][0] for i in fp) or set(fn) != set(nts) or set(fo) != set(nts):
        r["findings"].append({"kind": "shape", "what": "-", "detail": "printed FIRST/FOLLOW sets do not cover exactly the productions / non-terminals of the grammar"})
        return r
    try:
        ref = kdec.ref_lookahead  # noqa (only used through helper below)
        ref_first_nt, ref_first_prod, ref_follow = ref_sets(T.prods, T.start, k)
    except kdec.TooBig:
        ref_first_nt = ref_first_prod = ref_follow = None
    G = gtab.GTab(T, N)
    L = G.L
    s = z3.Solver()
    s.set("timeout", 60000)
    s.add(G.dom)

    def ask(expr):
        s.push()
        s.add(expr)
        res = s.check()
        m = s.model() if res == z3.sat else None
        s.pop()
        r["queries"] += 1
        return res, m

    def prefix_is(t):
        if len(t) < k:
            return z3.And([G.n == len(t)] + [G.toks[x] == t[x] for x in range(len(t))]) if len(t) <= N else z3.BoolVal(False)
        return z3.And([G.n >= k] + [G.toks[x] == t[x] for x in range(k)])

    def check_first(label, derive_expr, S, refS):
        r["sets"] += 1
        r["tuples"] += len(S)
        inS = z3.Or([prefix_is(t) for t in S]) if S else z3.BoolVal(False)
        res, m = ask(z3.And(derive_expr, z3.Not(inS)))
        if res == z3.sat:
            w = C.model_tokens(m, G.toks, G.n)
            t = tuple(w[:k])
            if refS is None or t in refS:
                r["findings"].append({"kind": "first_incomplete", "what": label, "detail": "%s derives %s, whose %d-prefix %s is missing from the printed set %s" % (label, w, k, list(t), sorted(S)[:8])})
            else:
                r["status"] = "encoder_mismatch"
        elif res != z3.unsat:
            r["undecided"].append("%s: completeness query %s" % (label, res))
        for t in sorted(S):
            res, m = ask(z3.And(derive_expr, prefix_is(t)))
            if res == z3.unsat:
                if refS is not None and t not in refS:
                    r["findings"].append({"kind": "first_unsound", "what": label, "detail": "printed FIRST_%d(%s) contains %s, which is the %d-prefix of no derivable string" % (k, label, list(t), k)})
                else:
                    r["undecided"].append("%s: tuple %s needs strings longer than %d" % (label, list(t), N))
            elif res != z3.sat:
                r["undecided"].append("%s: soundness query %s" % (label, res))

    for A in nts:
        check_first("FIRST(%s)" % A, L.sentence(A), first_nt[A], None if ref_first_nt is None else ref_first_nt[A])
    for i, (A, rhs) in enumerate(T.prods):
        check_first("FIRST(production %d)" % i, L.seq_derives(tuple(rhs), 0, N) if False else z3.Or([z3.And(G.n == j, L.seq_derives(tuple(rhs), 0, j)) for j in range(N + 1)]),
                    first_prod[i], None if ref_first_prod is None else ref_first_prod[i])
    if r["status"] != "ok":
        return r

    # FOLLOW: k tokens after an A-node (end of input = 0 padded)
    def pad(t):
        return tuple(t) + (0,) * (k - len(t))

    for A in nts:
        S = set(pad(t) for t in follow_nt[A])
        bad = [t for t in follow_nt[A] if len(t) > k or (len(t) < k and (not t or t[-1] != 0)) or (0 in t[:-1])]
        if bad:
            r["findings"].append({"kind": "follow_malformed", "what": A, "detail": "printed FOLLOW_%d(%s) contains malformed tuple %s" % (k, A, list(bad[0]))})
            continue
        r["sets"] += 1
        r["tuples"] += len(S)
        refS = None if ref_follow is None else ref_follow[A]
        spans = []
        for i in range(N + 1):
            for j in range(i, N + 1):
                d = L.derives(A, i, j)
                if z3.is_false(d):
                    continue
                o = G.O(A, i, j)
                if z3.is_false(o):
                    continue
                spans.append((j, z3.And(o, d)))

        def fol_is(j, t):
            return z3.And([G.tok(j + x) == t[x] for x in range(k)])
        viol = [z3.And(e, z3.Not(z3.Or([fol_is(j, t) for t in S]) if S else z3.BoolVal(False))) for j, e in spans]
        res, m = ask(z3.Or(viol) if viol else z3.BoolVal(False))
        if res == z3.sat:
            w = C.model_tokens(m, G.toks, G.n)
            hit = None
            for (j, e), v in zip(spans, viol):
                if z3.is_true(m.eval(v, model_completion=True)):
                    hit = tuple((w[j + x] if j + x < len(w) else 0) for x in range(k))
                    break
            if refS is None or hit in refS:
                r["findings"].append({"kind": "follow_incomplete", "what": A, "detail": "in sentence %s an occurrence of %s is followed by %s, which is missing from the printed FOLLOW_%d(%s) = %s" % (w, A, list(hit or ()), k, A, sorted(S)[:8])})
            else:
                r["status"] = "encoder_mismatch"
                return r
        elif res != z3.unsat:
            r["undecided"].append("FOLLOW(%s): completeness query %s" % (A, res))
        for t in sorted(S):
            res, m = ask(z3.Or([z3.And(e, fol_is(j, t)) for j, e in spans]) if spans else z3.BoolVal(False))
            if res == z3.unsat:
                if refS is not None and t not in refS:
                    r["findings"].append({"kind": "follow_unsound", "what": A, "detail": "printed FOLLOW_%d(%s) contains %s, which follows %s in no sentence" % (k, A, list(t), A)})
                else:
                    r["undecided"].append("FOLLOW(%s): tuple %s needs sentences longer than %d" % (A, list(t), N))
            elif res != z3.sat:
                r["undecided"].append("FOLLOW(%s): soundness query %s" % (A, res))
    if len(r["samples"]) < 1 and nts:
        A = nts[-1]
        r["samples"].append({"k": k, "non_terminal": A, "FIRST": sorted(first_nt[A])[:6], "FOLLOW": sorted(follow_nt[A])[:6]})
    r["wall_s"] = round(time.time() - t0, 2)
    return r


def ref_sets(prods, start, k, cap=100000):
    """exact reference FIRST_k per non-terminal / production (unpadded, shorter tuples = whole strings) and
    FOLLOW_k per non-terminal (padded with 0) - confirmation only."""
    nts = sorted(set(l for l, _ in prods))
    first = {A: set() for A in nts}

    def cat(S1, S2):
        out = set()
        for a in S1:
            if len(a) >= k:
                out.add(a[:k])
                continue
            for b in S2:
                out.add((a + b)[:k])
            if len(out) > cap:
                raise kdec.TooBig()
        return out

    def fseq(rhs):
        cur = {()}
        for s in rhs:
            cur = cat(cur, {(s[1],)} if s[0] == "T" else first[s[1]])
            if not cur:
                break
        return cur
    ch = True
    while ch:
        ch = False
        for A, rhs in prods:
            f = fseq(rhs)
            if not f <= first[A]:
                first[A] |= f
                ch = True
    follow = {A: set() for A in nts}
    follow[start].add((0,) * k)
    ch = True
    while ch:
        ch = False
        for A, rhs in prods:
            for i, s in enumerate(rhs):
                if s[0] == "N":
                    f = cat(fseq(rhs[i + 1:]), follow[A])
                    if not f <= follow[s[1]]:
                        follow[s[1]] |= f
                        ch = True
    return first, [fseq(rhs) for _, rhs in prods], follow


def make_tasks(files, ks, N):
    parol = parol_bin()
    arts = GL.generate(files, k=5, want_parser=False)
    es = [a["e"] for a in arts if a["rc"] == 0 and a.get("e")]
    skipped = [{"grammar": a["grammar"], "why": "rejected by parol"} for a in arts if a["rc"] != 0]
    src = {a["e"]: a["grammar"] for a in arts if a.get("e")}
    tasks = []
    for a in GL.generate(es, k=5, want_parser=True):
        if a["rc"] != 0 or not a.get("parser"):
            skipped.append({"grammar": src.get(a["grammar"], a["grammar"]), "why": "transformed grammar rejected on re-read"})
            continue
        if os.path.getsize(a["parser"]) > 300000:
            skipped.append({"grammar": src.get(a["grammar"]), "why": "large grammar"})
            continue
        for k in ks:
            tasks.append({"grammar": src.get(a["grammar"], a["grammar"]), "e": a["grammar"], "parser": a["parser"], "k": k, "N": N, "parol": parol})
    return tasks, skipped


def main():
    from checks.c05 import run_pool
    run = Run("C06", "translation_validation")
    N = 7 if tier() == "quick" else 9
    ks = [1, 2, 3] if tier() == "quick" else [1, 2, 3, 4]
    files = GL.select(P.corpus())
    files = [f for f in files if not read_par(f).is_lalr()]
    random.Random(seed()).shuffle(files)
    cap = 120 if tier() == "quick" else 360
    files = [f for f in files if "/gen/gram/" not in f] + [f for f in files if "/gen/gram/" in f][:cap]
    tasks, skipped = make_tasks(files, ks, N)
    res = run_pool(tasks, one_fn=one)
    programs = queries = sets = tuples = disagreements = 0
    samples, undecided = [], []
    for r in res:
        if r["status"].startswith("skip"):
            skipped.append({"grammar": r["grammar"], "k": r["k"], "why": r["status"] + " " + r.get("error", "")})
            continue
        if r["status"] != "ok":
            run.inconc("%s (k=%d): %s %s" % (r["grammar"], r["k"], r["status"], r.get("error", "")))
            continue
        programs += 1
        queries += r["queries"]
        sets += r["sets"]
        tuples += r["tuples"]
        undecided += ["%s (k=%d): %s" % (os.path.basename(r["grammar"]), r["k"], u) for u in r["undecided"]]
        for smp in r["samples"]:
            if len(samples) < 8:
                samples.append(dict(smp, grammar=r["grammar"]))
        for f in r["findings"]:
            disagreements += 1
            run.violation("%s (k=%d): %s" % (r["grammar"], r["k"], f["detail"]), {"grammar": r["grammar"], "k": r["k"], "N": r["N"], "kind": f["kind"], "what": f["what"]})
    run.cov.update({
        "programs": programs, "disagreements_checked": disagreements, "samples": samples or [{"note": "nothing validated"}],
        "sets_checked": sets, "tuples_checked": tuples, "queries_discharged": queries, "bound_N_tokens": N, "k_values": ks,
        "grammars": len(files), "skipped_count": len(skipped), "skipped": skipped[:20],
        "undecided_within_N_count": len(undecided), "undecided_within_N": undecided[:20],
        "solver": "z3 %s" % z3.get_version_string(), "functions_in_loop": FUNCS,
        "explanation": "per transformed LL grammar and k the sets printed by the real `parol first` / `parol follow` are compared with the definition: completeness (unsat required) "
                       "no string <= N derivable from X has a k-prefix outside FIRST_k(X), no sentence <= N has an occurrence of A followed by k tokens outside FOLLOW_k(A); "
                       "soundness (sat required per tuple) every printed tuple is the k-prefix / k-follow of a derivation <= N",
    })
    run.assume("bounded: strings/sentences of length <= %d, k in %s, grammars <= %d productions; one request per k and process (the order of cache requests across k - the 'histories' part of the property - is not varied)" % (N, ks, MAX_PRODS),
               "a tuple without a witness <= N is an alarm only if the exact reference sets do not contain it; otherwise listed as undecided within N",
               "trusted: bounded-derivability encoder shared with G-tab, terminal-name map read from TERMINAL_NAMES of the parser generated for the same transformed grammar, par_reader, z3")
    return run


def check_main():
    return main().finish()


def replay(path):
    obj = json.load(open(path))["replay"]
    tasks, _ = make_tasks([obj["grammar"]], [obj["k"]], obj.get("N", 7))
    for t in tasks:
        r = one(t)
        print(json.dumps({k: r.get(k) for k in ("status", "findings")}, indent=1, default=str))
        if any(f["kind"] == obj["kind"] and f["what"] == obj["what"] for f in r.get("findings", [])):
            return 1
    return 0
