"""C18 - all generated parts agree on terminal identity (engine G, partial).

For every LL corpus grammar the terminal indices used by the generated PRODUCTIONS and
LOOKAHEAD_AUTOMATA are interpreted through the regular expressions the GENERATED SCANNER assigns to
those indices, the grammar's terminals through their expanded patterns, and z3 decides for all token
strings <= N that both describe the same language; plus: every index used by the tables is produced
by some scanner mode, every scanner terminal belongs to the grammar, TERMINAL_NAMES has the
matching size.  A production table that numbers a '..' literal like the ".." literal with equal
text (the oberon_0 defect, fixed) shows up as a language difference.  Not covered: skip lists and
scanner-transition lists, LALR tables (their terminal numbering is checked structurally by C03).
"""
from checks import c07


def check_main():
    run = c07.main(prop="C18", want_exactness=False, with_language=True, scanner_vocab=True)
    run.cov["explanation"] = ("terminal identity across scanner / production table / lookahead automata: language of the grammar as written over expanded "
                              "terminal patterns == language of the generated tables with indices read through the generated scanner's patterns, for all token strings <= N; "
                              "plus index-range conjuncts")
    run.assume("partial: skip lists, scanner-state transition lists and the terminal-name table's contents are not covered; LALR(1) grammars are covered by C03's numbering conjunct only",
               "two literals with different quoting but the same expanded pattern are one token for the scanner and are identified")
    return run.finish()


def replay(path):
    import json
    obj = json.load(open(path))
    obj["replay"]["scanner_vocab"] = True
    json.dump(obj, open(path, "w"))
    return c07.replay(path)
