"""C07 - lookahead automata encode exactly the lookahead sets (engine G, G-tab)."""
import os, json, random
from lib.common import Run, tier, seed, known_for
from lib import genparser as GP
from engine_g import pipeline as P
from engine_g.par_reader import read_par
from checks import g_lang as GL, g_tab as GT

FUNCS = ["analysis::k_decision::calculate_lookahead_dfas", "analysis::lookahead_dfa::LookaheadDFA::{from_k_tuples,unite}",
         "analysis::compiled_la_dfa::CompiledDFA::{from_lookahead_dfa,minimize,renumber_states}", "generators::parser_model (export)"]


def native_confirm(grammar, k, text):
    b, l = GP.build_parser(grammar, k=k)
    if not b:
        return None, l
    r = GP.run_parser(b, text)
    return r["accepted"], r["raw"][-400:]


def main(prop="C07", want_exactness=True, with_language=False, scanner_vocab=False):
    run = Run(prop, "translation_validation")
    N = 8 if tier() == "quick" else 12
    ks = [5] if tier() == "quick" else [1, 2, 5, 10]
    files = GL.select(P.corpus())
    files = [f for f in files if not read_par(f).is_lalr()]
    random.Random(seed()).shuffle(files)
    tasks, skipped = [], []
    for k in ks:
        # generated grammar families run at the default limit (and at 2); the other limits on the fixed corpus
        files_k = files if k in (5, 2) else [f for f in files if "/gen/gram/" not in f]
        for a in GL.generate(files_k, k=k, want_parser=True):
            if a["rc"] != 0 or not a.get("parser"):
                skipped.append({"grammar": a["grammar"], "k": k, "why": ("rejected by parol (rc=%s)" % a["rc"])})
                continue
            small = os.path.getsize(a["parser"]) < 400000
            base = {"grammar": a["grammar"], "k": k, "N": N if small else min(N, 8), "exactness": want_exactness and small}
            # primary artifact: the tables inside the generated parser source
            tasks.append(dict(base, source="parser_rs", parser=a["parser"], align_e=(a.get("e") if (with_language and not scanner_vocab) else None),
                              source_grammar=(a["grammar"] if with_language else None), scanner_vocab=scanner_vocab))
            # second artifact: the language-agnostic export model (tables of the un-factored grammar)
            if a.get("export") and (tier() == "thorough" or a["grammar"].startswith("/verif/grammars/")):
                tasks.append(dict(base, source="export", export=a["export"], exactness=False))
    res = GT.run_tables(tasks)
    known = known_for(prop)
    programs = disagreements = queries = 0
    tsolver = 0.0
    samples = []
    unjust_total = 0
    paths_total = 0
    for r in res:
        if r["status"] == "skip_lalr":
            continue
        if r["status"] != "ok":
            run.inconc("%s (k=%d): %s %s" % (r["grammar"], r["k"], r["status"], r.get("error", "")))
            continue
        programs += 1
        comp = r["completeness"]
        art = "generated parser tables" if r.get("source") == "parser_rs" else "export model"
        for s in sorted(set(r.get("alignment_issues", []))):
            disagreements += 1
            key = "%s|alignment|%s" % (os.path.basename(r["grammar"]), s)
            kf = [f for f in known if f["key"] == key]
            if kf:
                if kf[0]["what"] not in run.known_hits:
                    run.known(kf[0]["what"])
            else:
                run.violation("%s (k=%d): generated tables do not encode the transformed grammar: %s" % (r["grammar"], r["k"], s),
                              {"grammar": r["grammar"], "k": r["k"], "kind": "alignment", "issue": s})
        for s_ in r.get("identity_issues", []):
            disagreements += 1
            run.violation("%s (k=%d): terminal numbering of the generated parts is inconsistent: %s" % (r["grammar"], r["k"], s_),
                          {"grammar": r["grammar"], "k": r["k"], "kind": "identity", "issue": s_})
        lang = r.get("language")
        if lang:
            queries += 1
            tsolver += lang.get("solver_s", 0)
            if lang["status"] == "sat":
                disagreements += 1
                if lang.get("confirmed"):
                    run.violation("%s (k=%d): token string [%s] is %s the grammar as written but %s the language of the generated production table" % (
                        r["grammar"], r["k"], " ".join(lang["witness_text"]), "in" if lang["in_source"] else "not in", "in" if lang["in_tables"] else "not in"),
                        {"grammar": r["grammar"], "k": r["k"], "kind": "language", "witness": lang["witness"], "witness_text": lang["witness_text"], "N": r["N"]})
                else:
                    run.inconc("%s: language witness not confirmed by CYK (encoder defect)" % r["grammar"])
            elif lang["status"] != "unsat":
                run.inconc("%s: language query %s" % (r["grammar"], lang["status"]))
        queries += 1
        tsolver += comp.get("solver_s", 0)
        tag = "%s|" % os.path.basename(r["grammar"])
        for s in r["structure"]:
            disagreements += 1
            run.violation("%s (k=%d, %s): automaton violates the table contract: %s" % (r["grammar"], r["k"], art, s),
                          {"grammar": r["grammar"], "k": r["k"], "kind": "structure", "issue": s, "source": r.get("source")})
        if comp["status"] == "sat":
            disagreements += 1
            if comp.get("confirmed"):
                nat = None
                if comp.get("witness_text") is not None:
                    nat, info = native_confirm(r["grammar"], r["k"], comp["witness_text"])
                    comp["native_generated_parser_accepts"] = nat
                what = ("%s (k=%d): sentence [%s] needs production %d (%s) at tokens %s but the exported automaton predicts %s; "
                        "table-driven parse fails; generated parser natively %s" % (
                            r["grammar"], r["k"], " ".join(comp["witness_terminals"]), comp["production"], comp["production_text"],
                            comp["span"], comp["predicted"], {True: "ACCEPTS (not reproduced)", False: "rejects it", None: "not run (no literal lexemes)"}[nat]))
                if nat is True:
                    run.inconc(what)
                else:
                    run.violation(what, {"grammar": r["grammar"], "k": r["k"], "kind": "completeness", "witness": comp["witness"],
                                         "witness_text": comp.get("witness_text"), "N": r["N"], "source": r.get("source")})
            else:
                run.inconc("%s: G-tab witness %s not confirmed by the reference table-driven parser (encoder defect)" % (r["grammar"], comp.get("witness")))
        elif comp["status"] != "unsat":
            run.inconc("%s (k=%d): solver %s %s" % (r["grammar"], r["k"], comp["status"], comp.get("reason", "")))
        ex = r.get("exactness")
        if ex and "paths" in ex:
            queries += ex["paths"]
            paths_total += ex["paths"]
            unjust_total += len(ex["unjustified"])
            for u in ex["unjustified"]:
                if u["why"].startswith("production of another"):
                    disagreements += 1
                    run.violation("%s: automaton of %s predicts production %d of another non-terminal" % (r["grammar"], u["nt"], u["prod"]),
                                  {"grammar": r["grammar"], "k": r["k"], "kind": "foreign-production", "detail": u})
        if len(samples) < 6:
            samples.append({"grammar": r["grammar"], "k": r["k"], "N": r["N"], "artifact": art, "productions": r["prods"], "automata": r["automata"],
                            "language_vs_source": (lang or {}).get("status"),
                            "completeness": {x: comp.get(x) for x in ("status", "obligations", "encode_s", "solver_s")},
                            "accepting_paths": (ex or {}).get("paths"), "paths_justified_within_N": (ex or {}).get("justified"),
                            "paths_unjustified_within_N": [(u["nt"], u["path"], u["prod"]) for u in (ex or {}).get("unjustified", [])][:5]})
    run.cov.update({
        "programs": programs, "disagreements_checked": disagreements, "samples": samples or [{"note": "nothing validated"}],
        "bound_N_tokens": N, "lookahead_limits": ks, "grammars": len(files), "skipped": skipped[:30], "skipped_count": len(skipped),
        "queries_discharged": queries, "accepting_paths_checked": paths_total, "paths_unjustified_within_N": unjust_total,
        "solver": "z3 %s" % __import__("z3").get_version_string(), "solver_time_s": round(tsolver, 2),
        "functions_in_loop": FUNCS,
        "explanation": "per LL corpus grammar and lookahead limit the minimised automata in `parol export` are validated against the exported productions: "
                       "(completeness, unsat required) for every sentence <= N every production applied at any node is the one the automaton predicts within its own k; "
                       "(exactness, semi-decided) every accepting path is justified by a sentence <= N - unjustified paths are reported, never as violations; "
                       "(structure) sorted, deterministic, dense, accepting states are leaves, depth <= k, predicted productions belong to the non-terminal",
    })
    run.assume("bounded: sentences of length <= %d; programs quantifier = stated corpus x lookahead limits %s" % (N, ks),
               "exactness direction is only semi-decided by a bounded encoding: an accepting path with no witness sentence <= N is listed as 'unjustified within N', not as a violation",
               "trusted: G-tab encoder (every witness is re-checked by an independent table-driven parser + CYK and, where all terminals are literals, by the natively built generated parser), z3")
    return run


def check_main():
    return main().finish()


def replay(path):
    obj = json.load(open(path))["replay"]
    a = GL.generate([obj["grammar"]], k=obj.get("k", 5), want_parser=True)[0]
    src = obj.get("source") or "parser_rs"
    r = GT.one({"grammar": obj["grammar"], "k": obj.get("k", 5), "export": a.get("export"), "parser": a.get("parser"), "source": src, "scanner_vocab": bool(obj.get("scanner_vocab")),
                "align_e": a.get("e") if src == "parser_rs" else None, "source_grammar": obj["grammar"] if obj["kind"] == "language" else None,
                "N": obj.get("N", 8), "exactness": False})
    print(json.dumps({k: r.get(k) for k in ("structure", "alignment_issues", "language", "completeness")}, indent=1, default=str))
    if obj["kind"] == "structure":
        return 1 if obj["issue"] in r.get("structure", []) else 0
    if obj["kind"] == "identity":
        r2 = GT.one({"grammar": obj["grammar"], "k": obj.get("k", 5), "parser": a.get("parser"), "source": "parser_rs", "scanner_vocab": True,
                     "source_grammar": obj["grammar"], "N": obj.get("N", 8), "exactness": False})
        print(r2.get("identity_issues"))
        return 1 if r2.get("identity_issues") else 0
    if obj["kind"] == "alignment":
        return 1 if r.get("alignment_issues") else 0
    if obj["kind"] == "language":
        l = r.get("language") or {}
        return 1 if l.get("status") == "sat" and l.get("confirmed") else 0
    c = r.get("completeness", {})
    return 1 if c.get("status") == "sat" and c.get("confirmed") else 0


if __name__ == "__main__":
    pass
