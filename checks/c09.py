"""C09 - EBNF canonicalisation preserves the language (engine G, translation validation)."""
import os, json, random
from lib.common import Run, tier, seed, known_for
from engine_g import pipeline as P
from engine_g.par_reader import read_par
from checks import g_lang as GL


def structural(src_path, u_path):
    """Helper non-terminals never coincide with names already used: every user non-terminal keeps
    exactly as many productions as it has top-level alternatives in the source."""
    gs, gu = read_par(src_path), read_par(u_path)
    issues = []
    alts = {}
    for lhs, a in gs.ebnf:
        alts[lhs] = alts.get(lhs, 0) + len(a)
    cnt = {}
    for lhs, _ in gu.bnf:
        cnt[lhs] = cnt.get(lhs, 0) + 1
    for nt, n in alts.items():
        if cnt.get(nt, 0) != n:
            issues.append("non-terminal %s has %d alternatives as written but %d productions after canonicalisation (helper name clash or lost alternative)" % (nt, n, cnt.get(nt, 0)))
    if not gu.is_plain_bnf():
        issues.append("canonicalised grammar still contains EBNF constructs")
    if gu.start != gs.start:
        issues.append("start symbol changed: %s -> %s" % (gs.start, gu.start))
    return issues


def main(prop="C09"):
    run = Run(prop, "translation_validation")
    N = 6 if tier() == "quick" else 10
    files = GL.select(P.corpus())
    random.Random(seed()).shuffle(files)
    arts = GL.generate(files)
    ok, info = GL.validate_encoder(sorted(f for f in files if f.startswith("/verif/grammars/")) or files)
    if not ok:
        run.inconc("encoder self-validation failed: %s" % info)
    tasks, skipped = [], []
    for a in arts:
        if a["rc"] != 0 or not a.get("u"):
            skipped.append({"grammar": a["grammar"], "why": "rejected by parol (rc=%s)" % a["rc"]})
            continue
        tasks.append({"grammar": a["grammar"], "a": a["grammar"], "b": a["u"], "N": N, "label": "source vs parol -u"})
    res = GL.run_pairs(tasks)
    known = known_for(prop)
    samples, disagreements, programs = [], 0, 0
    tsolver = 0.0
    for r in res:
        tsolver += r.get("solver_s", 0)
        if r["status"] == "unsat":
            programs += 1
            iss = structural(r["a"], r["b"])
            for i in iss:
                disagreements += 1
                run.violation("%s: %s" % (r["grammar"], i), {"grammar": r["grammar"], "issue": i, "kind": "structural"})
        elif r["status"] == "sat":
            disagreements += 1
            if r.get("confirmed"):
                what = "%s: token string %s is %s the grammar as written but %s the canonicalised grammar (parol -u)" % (
                    r["grammar"], " ".join(r["witness_text"]), "in" if r["in_a"] else "not in", "in" if r["in_b"] else "not in")
                run.violation(what, {"grammar": r["grammar"], "witness": r["witness"], "witness_text": r["witness_text"], "N": N, "kind": "language"})
            else:
                run.inconc("%s: solver witness %s not confirmed by the independent derivation search (encoder defect)" % (r["grammar"], r["witness_text"]))
        else:
            run.inconc("%s: %s %s" % (r["grammar"], r["status"], r.get("reason", r.get("error", ""))))
        if len(samples) < 5 and r["status"] == "unsat":
            samples.append({"grammar": r["grammar"], "N": N, "terminals": r["terminals"], "productions_written": r["prods_a"],
                            "productions_canonical": r["prods_b"], "query": "xor of bounded membership", "verdict": "unsat", "solver_s": r["solver_s"]})
    run.cov.update({
        "programs": programs, "disagreements_checked": disagreements, "samples": samples or [{"note": "no grammar validated"}],
        "bound_N_tokens": N, "grammars_in_corpus": len(files), "skipped": skipped[:40], "skipped_count": len(skipped),
        "queries_discharged": len(res), "solver": "z3 %s" % __import__("z3").get_version_string(), "solver_time_s": round(tsolver, 2),
        "encoder_selfcheck_grammars": info if ok else 0,
        "functions_in_loop": ["parol::parser::parol_parser::parse", "ParolGrammar", "to_grammar_config", "transformation::canonicalization::transform_productions", "utils::generate_name", "conversions::par::render_par_string"],
        "explanation": "for every corpus grammar the solver decides, over ALL token strings of length <= N, that the grammar as written (independent lark reader + textbook EBNF semantics) and the output of the real canonicalisation (parol -u) have the same bounded language",
    })
    run.assume("bounded: token strings of length <= %d per grammar; the programs quantifier is covered by the stated corpus only" % N,
               "trusted: independent PAR reader and CFG->SAT encoder (self-validated on this run against a leftmost-derivation enumerator for all strings <= 4), z3")
    return run.finish()


def replay(path):
    obj = json.load(open(path))["replay"]
    from lib.common import parol_bin
    arts = GL.generate([obj["grammar"]])
    a = arts[0]
    if obj.get("kind") == "structural":
        iss = structural(a["grammar"], a["u"])
        print(iss)
        return 1 if iss else 0
    r = GL.compare_one({"grammar": a["grammar"], "a": a["grammar"], "b": a["u"], "N": max(obj.get("N", 6), len(obj["witness"])), "label": "replay"})
    print(r)
    return 1 if r["status"] == "sat" and r.get("confirmed") else 0
