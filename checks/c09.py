"""C09 - EBNF canonicalisation preserves the language (engine G, translation validation)."""
from engine_g.par_reader import read_par
from checks import g_lang as GL


def pick(a):
    return (a["grammar"], a["u"]) if a.get("u") else None


def structural(src_path, u_path):
    """Helper non-terminals never coincide with names already used: every user non-terminal keeps
    exactly as many productions as it has top-level alternatives in the source."""
    gs, gu = read_par(src_path), read_par(u_path)
    issues = []
    alts = {}
    for lhs, a in gs.ebnf:
        alts[lhs] = alts.get(lhs, 0) + len(a)
    cnt = {}
    for lhs, _ in gu.bnf:
        cnt[lhs] = cnt.get(lhs, 0) + 1
    for nt, n in alts.items():
        if cnt.get(nt, 0) != n:
            issues.append({"key": "alts:" + nt, "text": "non-terminal %s has %d alternatives as written but %d productions after canonicalisation (helper name clash or lost alternative)" % (nt, n, cnt.get(nt, 0))})
    if not gu.is_plain_bnf():
        issues.append({"key": "ebnf-left", "text": "canonicalised grammar still contains EBNF constructs"})
    if gu.start != gs.start:
        issues.append({"key": "start", "text": "start symbol changed: %s -> %s" % (gs.start, gu.start)})
    return issues


FUNCS = ["parol::parser::parol_parser::parse", "ParolGrammar", "parser::to_grammar_config", "transformation::canonicalization::transform_productions",
         "utils::generate_name", "conversions::par::render_par_string"]


def main():
    run = GL.lang_main("C09", pick, structural, "the grammar as written", "the canonicalised grammar (parol -u)", FUNCS,
                       "for every corpus grammar the solver decides, over ALL token strings of length <= N, that the grammar as written (independent lark reader, textbook EBNF semantics) and the output of the real canonicalisation (parol -u) have the same bounded language - for the start symbol and for every user non-terminal separately (a helper name that coincides with a user name changes that non-terminal's language or its alternative count)")
    return run.finish()


def replay(path):
    return GL.lang_replay(path, pick, structural)
