"""C32 - the packed k-tuple representation behaves like a sequence (engine K, external crate)."""
import os, shutil, json
from lib.common import Run, BUILD, REPO, VERIF, sh, known_for
from lib.kcheck import H, run_property, default_playback_replayer
from lib import kani

CRATE = os.path.join(VERIF, "kani", "ext")
TARGET = os.path.join(BUILD, "kani-ext")
KT = "crates/parol/src/analysis/k_tuple.rs::"
INV = ("pre-state: arbitrary u128 satisfying the representation invariant (bits 1..=12, len<=10, unused slots zero, "
       "EPS only as the single element, nothing after EOI)")

HARNESSES = [
    H("c32::c32_new_width", "max_terminal_index symbolic 0..=4094", [KT + "Terminals::new"]),
    H("c32::c32_new_rejects_over_limit", "max_terminal_index symbolic 4095..=70000 must panic (should_panic)", [KT + "Terminals::new"]),
    H("c32::c32_eps_end", "max_terminal_index symbolic 0..=4094", [KT + "Terminals::eps", KT + "Terminals::end", KT + "Terminals::set"]),
    H("c32::c32_push", "all valid states, width 1..=12 bits, len 0..=10, terminal < mask", [KT + "Terminals::push", KT + "Terminals::set", KT + "Terminals::inc_index", KT + "Terminals::last"], assumes=[INV, "self is not the epsilon tuple; pushed terminal is not EPS"]),
    H("c32::c32_get_iter", "all valid states; index 0..16; 11 iterator steps", [KT + "Terminals::get", KT + "Terminals::iter", KT + "TermIt::next"], assumes=[INV]),
    H("c32::c32_observers", "all valid states; k 0..=10", [KT + "Terminals::{len,is_empty,is_eps,k_len,is_k_complete,next_index,bits,clear}"], assumes=[INV]),
    H("c32::c32_of_truncates", "all valid states; k 0..=10", [KT + "Terminals::of"], assumes=[INV]),
    H("c32::c32_k_concat", "two valid states of equal width 1..=12, k 1..=10, |self| <= k", [KT + "Terminals::k_concat"], assumes=[INV, "|self| <= k (callers concatenate tuples built for the same k)"]),
    H("c32::c32_eq_ord", "three valid states of equal width", [KT + "Terminals::{eq,cmp,partial_cmp}", KT + "From<&Terminals> for u128"], assumes=[INV]),
    H("c32::c32_terminal_string", "two valid states, k 1..=10", [KT + "TerminalString::{push,k_concat,is_complete,is_eps,clear,make_complete,make_incomplete}"], assumes=[INV]),
    H("c32::c32_ktuple", "two valid states, k,k2 1..=10", [KT + "KTuple::{of,k_concat,set_k,eq,cmp,len,is_eps,is_k_complete}"], assumes=[INV]),
    H("c32::c32_ktuple_from_slice", "slices of <= 4 symbolic terminals <= max, max <= 4094, k 1..=10", [KT + "KTuple::from_slice", KT + "Extend<CompiledTerminal> for Terminals"]),
    H("c32::c32_twin_must_fail", "vacuity twin", [KT + "Terminals::get"], expect="fail"),
]


def prepare():
    shutil.copy(os.path.join(REPO, "Cargo.lock"), os.path.join(CRATE, "Cargo.lock"))


def main():
    prepare()
    run = run_property("C32", "model_checking", HARNESSES, CRATE, TARGET,
                       default_playback_replayer(CRATE, lambda h: "src/c32.rs"), jobs=13)
    run.assume("bounded claim: width 1..=12 bits, k <= 10 (MAX_K), all slot contents; KTuples (hash sets of tuples) are outside the claim",
               "trusted: Kani 0.68/CBMC 6.11 model of the dev profile; struct Terminals is a single u128 (size asserted at compile time)")
    return run.finish()


def replay(path):
    obj = json.load(open(path))["replay"]
    prepare()
    ok, out = kani.playback(CRATE, "src/c32.rs", obj["playback_test"])
    print(out[-3000:])
    return 1 if ok else 0
