"""Native replay through the parser that the real parol generates for a grammar."""
import os, shutil, hashlib, json
from .common import sh, BUILD, REPO, VERIF, parol_bin, flock, log

TEMPLATE = os.path.join(VERIF, "replay", "genparser")


def build_parser(grammar_path, k=5, options=()):
    """Generate parser source with the real parol (current tree) and build the replay binary.
    options: extra parol CLI flags (e.g. --trim, --disable-recovery, --max-parsing-depth N).
    Returns (binary_path or None, log)."""
    parol = parol_bin()
    tag = hashlib.sha1((grammar_path + repr(options) + str(k)).encode()).hexdigest()[:10]
    d = os.path.join(BUILD, "replay", "gp_" + tag)
    if os.path.exists(d):
        shutil.rmtree(d)
    shutil.copytree(TEMPLATE, d)
    shutil.copy(os.path.join(REPO, "Cargo.lock"), os.path.join(d, "Cargo.lock"))
    cmd = [parol, "-f", grammar_path, "-k", str(k), "-q", "-p", os.path.join(d, "src", "parser.rs"),
           "-a", os.path.join(d, "src", "unused_trait.rs"), "-t", "G", "-m", "g"] + list(options)
    rc, out = sh(cmd, cwd=d, timeout=300)
    if rc != 0:
        return None, "parol failed: " + out[-1500:]
    os.remove(os.path.join(d, "src", "unused_trait.rs"))
    psrc = open(os.path.join(d, "src", "parser.rs"), encoding="utf-8").read()
    if "&mut G<'t>" not in psrc:
        # the generator decided that the user type carries no lifetime: adapt the stand-ins
        open(os.path.join(d, "src", "g.rs"), "w").write(
            "/// Stand-in for the user's grammar type (no lifetime variant).\n"
            "pub struct G {\n    pub log: Vec<String>,\n}\n"
            "impl G {\n    pub fn new() -> Self {\n        G { log: Vec::new() }\n    }\n}\n")
        t = open(os.path.join(d, "src", "g_trait.rs")).read()
        t = t.replace("user: &'u mut G<'t>,", "user: &'u mut G,\n    _p: core::marker::PhantomData<&'t str>,")
        t = t.replace("pub fn new(user: &'u mut G<'t>) -> Self {\n        GAuto { user }", "pub fn new(user: &'u mut G) -> Self {\n        GAuto { user, _p: core::marker::PhantomData }")
        open(os.path.join(d, "src", "g_trait.rs"), "w").write(t)
    with flock("replay-target"):
        rc, out = sh(["cargo", "build", "--offline"], cwd=d, env={"CARGO_TARGET_DIR": os.path.join(BUILD, "replay-target")}, timeout=1800)
        if rc != 0:
            return None, "cargo build failed: " + out[-3000:]
        binp = os.path.join(d, "genparser")
        shutil.copy(os.path.join(BUILD, "replay-target", "debug", "genparser"), binp)
    return binp, out[-500:]


def run_parser(binp, text):
    p = binp + ".input.txt"
    open(p, "w", encoding="utf-8").write(text)
    rc, out = sh([binp, p], timeout=120)
    verdict, actions, comments, tree = None, [], [], []
    for l in out.splitlines():
        if l.startswith("VERDICT ACCEPT"):
            verdict = True
        elif l.startswith("VERDICT REJECT"):
            verdict = False
        elif l.startswith("VERDICT PANIC"):
            verdict = "panic"
        elif l.startswith("TREE "):
            tree.append(l[5:])
        elif l.startswith("ACTION "):
            actions.append(l[7:])
        elif l.startswith("COMMENT "):
            comments.append(l[8:])
    return {"accepted": verdict, "actions": actions, "comments": comments, "tree": tree, "rc": rc, "raw": out[-1200:]}
