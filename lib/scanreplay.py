"""Native replay for engine R: compiles the emitted regexes with the real scnr2 `scanner!` macro
(one scanner per case, one build per batch) and scans the witness strings."""
import os, json, shutil
from .common import sh, BUILD, REPO, VERIF, flock

TEMPLATE = os.path.join(VERIF, "replay", "scan_replay")


def _rs_str(s):
    return json.dumps(s, ensure_ascii=True).replace("\\u", "\\u{").replace("\\u{", "\\u{")  # placeholder, replaced below


def rust_string(s):
    out = ['"']
    for ch in s:
        o = ord(ch)
        if ch == '"' or ch == "\\":
            out.append("\\" + ch)
        elif 32 <= o < 127:
            out.append(ch)
        else:
            out.append("\\u{%x}" % o)
    out.append('"')
    return "".join(out)


def raw_regex(rx):
    n = 1
    while '"' + "#" * n in rx:
        n += 1
    return 'r%s"%s"%s' % ("#" * n, rx, "#" * n)


def scan_batch(cases):
    """cases: list of dict(tokens=[(regex, index)...], input=str).  Returns per case the list of
    matches [(start, end, token_type)] produced by the real scnr2 scanner, or None on build error."""
    d = os.path.join(BUILD, "replay", "scan_batch")
    if os.path.exists(d):
        shutil.rmtree(d)
    shutil.copytree(TEMPLATE, d)
    shutil.copy(os.path.join(REPO, "Cargo.lock"), os.path.join(d, "Cargo.lock"))
    src = ["use scnr2::scanner;"]
    for i, c in enumerate(cases):
        toks = "\n".join("            token %s => %d;" % (raw_regex(rx), idx) for rx, idx in c["tokens"])
        src.append("scanner! {\n    S%d {\n        mode M {\n%s\n        }\n    }\n}" % (i, toks))
    src.append("fn main() {")
    for i, c in enumerate(cases):
        src.append("    {\n        let sc = s%d::S%d::new();\n        let input = %s;\n        let ms: Vec<String> = sc.find_matches(input, 0).map(|m| format!(\"{}:{}:{}\", m.span.start, m.span.end, m.token_type)).collect();\n        println!(\"CASE %d {}\", ms.join(\" \"));\n    }" % (i, i, rust_string(c["input"]), i))
    src.append("}")
    open(os.path.join(d, "src", "main.rs"), "w").write("\n".join(src) + "\n")
    with flock("replay-target"):
        rc, out = sh(["cargo", "build", "--offline"], cwd=d, env={"CARGO_TARGET_DIR": os.path.join(BUILD, "replay-target")}, timeout=3600)
        if rc != 0:
            return None, out[-3000:]
        rc, out = sh([os.path.join(BUILD, "replay-target", "debug", "scan_replay")], timeout=300)
    res = [None] * len(cases)
    for l in out.splitlines():
        if l.startswith("CASE "):
            parts = l.split()
            i = int(parts[1])
            res[i] = [tuple(int(x) for x in p.split(":")) for p in parts[2:]]
    return res, out[-500:]
