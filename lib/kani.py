"""Engine K: run Kani harnesses over /repo's current working tree and parse verdicts."""
import os, re, time, json, shutil
from .common import sh, log, BUILD, ENV, flock

KANI_FLAGS = ["-Z", "stubbing", "-Z", "unstable-options"]


class HarnessResult:
    def __init__(self, name):
        self.name = name
        self.status = "NOT_RUN"     # SUCCESSFUL | FAILED | TIMEOUT | ERROR | NOT_RUN
        self.checks = 0
        self.failed = 0
        self.failed_descs = []      # [(desc, file, line, fn)]
        self.covers = (0, 0)        # satisfied, total
        self.time_s = None
        self.raw = ""

    def as_dict(self):
        return {"harness": self.name, "status": self.status, "cbmc_checks": self.checks,
                "failed_checks": self.failed, "failed": self.failed_descs[:6],
                "covers_satisfied": self.covers[0], "covers_total": self.covers[1],
                "solver_time_s": self.time_s}


def _parse_terse(out, names):
    res = {}
    cur = {}          # thread -> harness name
    blocks = {}       # harness -> text
    thread = None
    for line in out.splitlines():
        m = re.match(r"Thread (\d+): Checking harness (\S+?)\.\.\.", line)
        if m:
            cur[m.group(1)] = m.group(2)
            blocks.setdefault(m.group(2), "")
            thread = None
            continue
        m = re.match(r"Thread (\d+): ?(.*)", line)
        if m and m.group(1) in cur:
            thread = m.group(1)
            blocks[cur[thread]] += m.group(2) + "\n"
            continue
        m = re.match(r"Checking harness (\S+?)\.\.\.", line)
        if m:   # sequential mode
            cur["seq"] = m.group(1)
            thread = "seq"
            blocks.setdefault(m.group(1), "")
            continue
        if thread is not None and thread in cur:
            blocks[cur[thread]] += line + "\n"
    for full, txt in blocks.items():
        r = HarnessResult(full)
        r.raw = txt
        m = re.search(r"\*\* (\d+) of (\d+) failed", txt)
        if m:
            r.failed, r.checks = int(m.group(1)), int(m.group(2))
        m = re.search(r"\*\* (\d+) of (\d+) cover properties satisfied", txt)
        if m:
            r.covers = (int(m.group(1)), int(m.group(2)))
        m = re.search(r"Verification Time: ([0-9.]+)s", txt)
        if m:
            r.time_s = float(m.group(1))
        for fm in re.finditer(r"Failed Checks: (.*)\n File: \"([^\"]*)\", line (\d+), in (\S+)", txt):
            r.failed_descs.append((fm.group(1), fm.group(2), int(fm.group(3)), fm.group(4)))
        if "VERIFICATION:- SUCCESSFUL" in txt:
            r.status = "SUCCESSFUL"
        elif "VERIFICATION:- FAILED" in txt:
            # CBMC out of memory / crash is reported as FAILED with no failed property
            if "Status: ERROR" in txt or "CBMC failed" in txt or "timed out" in txt.lower() \
                    or (r.failed == 0 and not r.failed_descs and "should_panic" not in txt):
                r.status = "ERROR"
            else:
                r.status = "FAILED"
        elif "TIMEOUT" in txt or "timed out" in txt.lower():
            r.status = "TIMEOUT"
        else:
            r.status = "ERROR"
        res[full] = r
    return res


def run_kani(crate_dir, harnesses, target_dir, jobs=8, harness_timeout=1200, total_timeout=None,
             mem_gb=32, extra=None, package=None, env=None, playback=False):
    """Run `cargo kani` once for the given harness names (exact, fully qualified or suffix).
    Returns dict name -> HarnessResult (keyed by the names given)."""
    os.makedirs(target_dir, exist_ok=True)
    if playback:
        # concrete playback is incompatible with --jobs: run sequentially, counterexample values
        # are printed in the same run (no second solver run needed)
        cmd = ["cargo", "kani", "--target-dir", target_dir] + KANI_FLAGS + \
              ["-Z", "concrete-playback", "--concrete-playback=print", "--output-format", "terse",
               "--harness-timeout", "%ds" % harness_timeout]
        jobs = 1
    else:
        cmd = ["cargo", "kani", "--target-dir", target_dir] + KANI_FLAGS + \
              ["--output-format", "terse", "-j", str(max(1, jobs)),
               "--harness-timeout", "%ds" % harness_timeout]
    if package:
        cmd += ["-p", package]
    cmd += ["--exact"]
    for h in harnesses:
        cmd += ["--harness", h]
    if extra:
        cmd += extra
    tot = total_timeout or (harness_timeout * (1 + len(harnesses) // max(1, jobs)) + 900)
    shell = "ulimit -v %d; exec %s" % (mem_gb * 1024 * 1024, " ".join("'%s'" % c for c in cmd))
    t0 = time.time()
    with flock("kani-" + os.path.basename(target_dir)):
        rc, out = sh(["bash", "-c", shell], cwd=crate_dir, timeout=tot, env=env)
    wall = time.time() - t0
    logp = os.path.join(BUILD, "logs")
    os.makedirs(logp, exist_ok=True)
    open(os.path.join(logp, "kani-%s-%d.log" % (os.path.basename(target_dir), int(t0))), "w").write(out)
    parsed = _parse_terse(out, harnesses)
    res = {}
    for h in harnesses:
        hit = [r for n, r in parsed.items() if n == h or n.endswith("::" + h)]
        if hit:
            res[h] = hit[0]
        else:
            r = HarnessResult(h)
            if "error: could not compile" in out or "error[E" in out:
                r.status = "COMPILE_ERROR"
                r.raw = out[-3000:]
            elif rc == 124:
                r.status = "TIMEOUT"
            else:
                r.status = "NOT_RUN"
                r.raw = out[-3000:]
            res[h] = r
    return res, wall, out


def values_from_text(out):
    """Extract the generated playback unit test and its byte vectors from kani output text."""
    m = re.search(r"```\n?(#\[test\].*?)```", out, re.S)
    if not m:
        m = re.search(r"(#\[test\]\s*fn kani_concrete_playback.*?\n}\n)", out, re.S)
    if not m:
        return None, None
    src = m.group(1)
    vecs = []
    for vm in re.finditer(r"//\s*(.*)\n\s*vec!\[([^\]]*)\]", src):
        nums = [int(x) for x in re.findall(r"\d+", vm.group(2))]
        vecs.append({"value": vm.group(1).strip(), "bytes": nums})
    return src, vecs


def concrete_values(crate_dir, harness, target_dir, package=None, timeout=5400, env=None, mem_gb=32):
    """Re-run one failing harness with concrete playback; return (test_source, list of byte vectors)."""
    cmd = ["cargo", "kani", "--target-dir", target_dir] + KANI_FLAGS + \
          ["-Z", "concrete-playback", "--concrete-playback=print", "--exact", "--harness", harness]
    if package:
        cmd += ["-p", package]
    shell = "ulimit -v %d; exec %s" % (mem_gb * 1024 * 1024, " ".join("'%s'" % c for c in cmd))
    with flock("kani-" + os.path.basename(target_dir)):
        rc, out = sh(["bash", "-c", shell], cwd=crate_dir, timeout=timeout, env=env)
    m = re.search(r"```\n?(#\[test\].*?)```", out, re.S)
    if not m:
        m = re.search(r"(#\[test\]\s*fn kani_concrete_playback.*?\n}\n)", out, re.S)
    if not m:
        return None, None, out
    src = m.group(1)
    vecs = []
    for vm in re.finditer(r"//\s*(.*)\n\s*vec!\[([^\]]*)\]", src):
        nums = [int(x) for x in re.findall(r"\d+", vm.group(2))]
        vecs.append({"value": vm.group(1).strip(), "bytes": nums})
    return src, vecs, out


def playback(crate_src_dir, rel_file, test_src, mod_path_fix=None, release=False, timeout=1800, env=None):
    """Native replay of a Kani counterexample: copy the harness crate to a scratch dir, append the
    generated unit test to the file that holds the harness, run `cargo kani playback`.
    Returns (reproduced: bool|None, output)."""
    scratch = os.path.join(BUILD, "playback", os.path.basename(crate_src_dir.rstrip("/")))
    if os.path.exists(scratch):
        shutil.rmtree(scratch)
    shutil.copytree(crate_src_dir, scratch, ignore=shutil.ignore_patterns("target"))
    p = os.path.join(scratch, rel_file)
    with open(p, "a") as f:
        f.write("\n#[cfg(kani)]\nmod verif_playback_gen {\n    use super::*;\n" + test_src + "\n}\n")
    m = re.search(r"fn (kani_concrete_playback_\w+)", test_src)
    tname = m.group(1)
    cmd = ["cargo", "kani", "playback", "-Z", "concrete-playback", "--", tname]
    e = {"CARGO_TARGET_DIR": os.path.join(BUILD, "playback-target" + ("-rel" if release else ""))}
    if release:
        # `cargo kani playback` has no --release: give the dev/test profile the release settings
        for prof in ("DEV", "TEST"):
            e["CARGO_PROFILE_%s_OPT_LEVEL" % prof] = "3"
            e["CARGO_PROFILE_%s_DEBUG_ASSERTIONS" % prof] = "false"
            e["CARGO_PROFILE_%s_OVERFLOW_CHECKS" % prof] = "false"
    if env:
        e.update(env)
    rc, out = sh(cmd, cwd=scratch, timeout=timeout, env=e)
    if "test result: FAILED" in out or "panicked at" in out:
        return True, out
    if "test result: ok" in out:
        return False, out
    return None, out
