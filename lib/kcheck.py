"""Generic driver for a property decided by a set of Kani harnesses."""
import os, json, shutil
from . import kani
from .common import Run, log, BUILD, REPO, known_for, tier


class H:
    """One harness: name, what it bounds, expectation."""

    def __init__(self, name, bound, functions, expect="pass", stubs=(), assumes=(), tiers=("quick", "thorough"),
                 timeout=1200, optional=None):
        self.name, self.bound, self.functions = name, bound, list(functions)
        # optional = a deepening beyond the quick tier's bound: if the solver does not finish it
        # inside its time limit the bound is reported as NOT reached (evidence: bounds_not_reached)
        # and the claim of the run is the set of bounds that were decided; nothing is claimed for it
        self.optional = (tuple(tiers) == ("thorough",) and expect == "pass") if optional is None else optional
        self.expect, self.stubs, self.assumes, self.tiers, self.timeout = expect, list(stubs), list(assumes), tiers, timeout


def default_playback_replayer(crate_dir, rel_file_of):
    """Replay through `cargo kani playback` (native execution of the harness body with the
    solver's concrete values; valid for harnesses without stubs)."""

    def rp(h, hr, target_dir, package):
        src, vecs, out = kani.concrete_values(crate_dir, h.name, target_dir, package=package)
        if not src:
            return None, {"error": "no concrete values produced", "tail": out[-1500:]}
        results = {}
        for rel in (False, True):
            ok, o = kani.playback(crate_dir, rel_file_of(h), src, release=rel)
            results["release" if rel else "dev"] = ok
            tail = o[-1500:]
        rep = results["dev"] or results["release"]
        if results["dev"] is None and results["release"] is None:
            rep = None
        return rep, {"harness": h.name, "values": vecs, "playback_test": src, "reproduced": results,
                     "playback_tail": tail}

    return rp


def run_property(prop, level, harnesses, crate_dir, target_dir, replayer, package=None, jobs=8,
                 known_matcher=None, env=None, extra_cov=None, run=None, mem_gb=32, playback=False):
    """harnesses: list[H].  Returns exit code (evidence written)."""
    run = run or Run(prop, level)
    t = tier()
    sel = [h for h in harnesses if t in h.tiers]
    # required harnesses (the quick tier's bounds + vacuity twins) and optional deepenings run in
    # separate `cargo kani` invocations: a driver that dies on a deep harness (memory) must not
    # take the required results with it
    req = [h for h in sel if not h.optional]
    opt = [h for h in sel if h.optional]
    res, wall, out = {}, 0.0, ""
    if req:
        res, wall, out = kani.run_kani(crate_dir, [h.name for h in req], target_dir, jobs=jobs,
                                       harness_timeout=max(h.timeout for h in req),
                                       package=package, env=env, mem_gb=mem_gb, playback=playback)
    if opt:
        ojobs = int(os.environ.get("VERIF_DEEP_JOBS", "5"))
        cap = int(os.environ.get("VERIF_DEEP_TIMEOUT", "0"))     # optional cap on the deepenings' time limit
        if cap:
            for h in opt:
                h.timeout = min(h.timeout, cap)
        r2, w2, o2 = kani.run_kani(crate_dir, [h.name for h in opt], target_dir, jobs=min(jobs, ojobs),
                                   harness_timeout=max(h.timeout for h in opt),
                                   package=package, env=env, mem_gb=max(mem_gb, 44), playback=playback)
        res.update(r2)
        wall += w2
    evaluations = 0
    nontrivial = 0
    hl = []
    solver_time = 0.0
    samples = []
    not_reached = []
    for h in sel:
        r = res[h.name]
        d = r.as_dict()
        d.update({"bound": h.bound, "functions_encoded": h.functions, "stubs": h.stubs,
                  "assumptions": h.assumes, "expect": h.expect})
        hl.append(d)
        evaluations += r.checks
        solver_time += r.time_s or 0
        for a in h.assumes:
            run.assume("%s: %s" % (h.name, a))
        for s in h.stubs:
            run.assume("%s: stub %s" % (h.name, s))
        if h.expect == "fail":
            if r.status == "FAILED":
                nontrivial += 1
            elif r.status == "SUCCESSFUL":
                run.inconc("vacuity twin %s did not fail: the harness family does not reach its assertions" % h.name)
            else:
                run.inconc("vacuity twin %s: %s" % (h.name, r.status))
            continue
        if r.status == "SUCCESSFUL":
            if r.covers[0] < r.covers[1]:
                run.inconc("harness %s: only %d of %d reachability witnesses satisfied" % (h.name, r.covers[0], r.covers[1]))
            else:
                nontrivial += 1 + r.covers[0]
        elif r.status == "FAILED":
            only_unwind = r.failed_descs and all("unwinding assertion" in f[0] for f in r.failed_descs)
            if only_unwind:
                run.inconc("harness %s: unwinding assertion failed - bound too small, nothing claimed" % h.name)
                continue
            if len(run.violations) >= 2:
                # two reproduced violations already decide the verdict; further failing harnesses
                # are listed, not individually replayed (each replay is a solver re-run)
                samples.append({"harness": h.name, "failed_checks": r.failed_descs[:3], "reproduced": "not replayed (cap of 2 reproduced violations reached)"})
                continue
            log("[%s] harness %s FAILED: %s -- replaying" % (prop, h.name, r.failed_descs[:3]))
            rep, obj = replayer(h, r, target_dir, package)
            obj["failed_checks"] = r.failed_descs
            samples.append({"counterexample": obj.get("values"), "harness": h.name, "reproduced": rep})
            if rep is True:
                what = "%s: %s" % (h.name, "; ".join("%s (%s:%s)" % (f[0], os.path.basename(f[1]), f[2]) for f in r.failed_descs[:3]))
                k = known_matcher(h, r, obj) if known_matcher else None
                if k:
                    run.known(k)
                else:
                    run.violation(what, obj)
            elif rep is False:
                run.inconc("harness %s failed in the solver but the counterexample does not reproduce natively "
                           "(harness/stub defect, not reported as a violation): %s" % (h.name, r.failed_descs[:2]))
            else:
                run.inconc("harness %s failed but no native replay could be produced" % h.name)
        elif h.optional and r.status in ("TIMEOUT", "ERROR", "NOT_RUN"):
            not_reached.append({"harness": h.name, "bound": h.bound, "status": r.status, "time_limit_s": h.timeout})
            run.assume("NOT DECIDED in this run (deepening beyond the quick bound, solver did not finish: %s): %s - %s; nothing is claimed for it"
                       % (r.status, h.name, h.bound))
        else:
            run.inconc("harness %s: %s %s" % (h.name, r.status, (r.raw or "")[-600:].replace("\n", " | ")))
    if not samples:
        samples = [{"obligation": "%s holds for all inputs within: %s" % (h.name, h.bound)} for h in sel[:4]]
    run.cov.update({
        "evaluations": evaluations,
        "distinct_nontrivial": nontrivial,
        "rule": "evaluations = CBMC property checks decided by the SAT solver over all symbolic inputs of the "
                "harnesses; a case is non-trivial when it is a harness verified with every kani::cover! "
                "reachability witness SATISFIED (1 + number of witnesses), or a vacuity twin that FAILED as required",
        "samples": samples,
        "harnesses": hl,
        "queries_discharged": len([1 for h in hl if h["status"] in ("SUCCESSFUL", "FAILED")]),
        "solver": "CBMC 6.11 / CaDiCaL via Kani 0.68 (unwinding assertions on)",
        "solver_time_s": round(solver_time, 2),
        "kani_wall_s": round(wall, 2),
        "exhaustive": False,
        "bounds_not_reached": not_reached,
    })
    if extra_cov:
        run.cov.update(extra_cov)
    return run
