"""Native replay of Kani counterexamples for in-crate harnesses without stubs: the generated unit
test is written to the crate's committed placeholder module `playback_gen.rs` (restored
afterwards) and run with `cargo kani playback` (ordinary native execution of the harness body
against the real code with the solver's concrete values)."""
import os, re
from .common import sh, BUILD, VERIF


def playback_incrate(crate_dir, kani_subdir, harness_mod_path, test_src, tag, gen_file="playback_gen.rs"):
    gen = os.path.join(VERIF, "kani", kani_subdir, gen_file)
    body = test_src.replace("kani::concrete_playback_run(concrete_vals, ", "kani::concrete_playback_run(concrete_vals, %s::" % harness_mod_path)
    placeholder = open(gen).read()
    out = ""
    try:
        open(gen, "w").write("//! generated; restored after replay\n" + body + "\n")
        tname = re.search(r"fn (kani_concrete_playback_\w+)", test_src).group(1)
        rc, out = sh(["cargo", "kani", "playback", "-Z", "concrete-playback", "--", tname], cwd=crate_dir,
                     env={"CARGO_TARGET_DIR": os.path.join(BUILD, "playback-target-" + tag)}, timeout=2400)
    finally:
        open(gen, "w").write(placeholder)
    if "test result: FAILED" in out or "panicked at" in out:
        return True, out
    if "test result: ok" in out:
        return False, out
    return None, out
