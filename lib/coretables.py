"""Generates /verif/build/gen/core_tables.rs for the parser-core Kani harnesses.

For each selected corpus grammar the constant blocks of the parser source that the freshly built
parol generates (TERMINAL_NAMES, NON_TERMINALS, LOOKAHEAD_AUTOMATA, PRODUCTIONS / PARSE_TABLE) are
copied verbatim (brace matching only) into a Rust module, together with
  * START, MAX_K, NTERMS (first index that is not a user terminal = the Error terminal),
  * `member(tokens, n)`: the decision table of the grammar AS WRITTEN for all token strings of
    length <= NMAX over the user terminals (independent reader + leftmost-derivation enumerator),
so a change of the generator changes the harness input on the next run.
"""
import os, re, json
from .common import BUILD, VERIF, parol_bin, flock, sh, tier
from engine_g import pipeline as P, cfg_sat as C
from engine_g.par_reader import read_par
from engine_g.rs_tables import RsTables, _block

OUT = os.path.join(BUILD, "gen", "core_tables.rs")

LL_GRAMMARS = ["ll_anbn", "ll_k2", "ll_k3", "ll_unite_order", "ll_nullable_tail", "ll_expr", "ll_leftfactor", "ll_k3_nt", "ll_list_k2", "ll_k3_short"]
LR_GRAMMARS = ["lr_expr", "lr_recursive_start", "lr_nullable_start", "lr_multi_start"]
NMAX = 4


def numbering(ge):
    order = []
    for _, rhs in ge.bnf:
        for s in rhs:
            if s[0] == "T":
                b = ("raw" if s[1][0] == "raw" else "rx", s[1][1], s[1][2])
                if b not in order:
                    order.append(b)
    return {b: 5 + i for i, b in enumerate(order)}


def module_for(name, art):
    src = open(art["parser"], encoding="utf-8").read()
    T = RsTables(art["parser"])
    gs = read_par(art["grammar"])
    ge = read_par(art["e"])
    num = numbering(ge)
    vocab = {}
    for k in gs.term_order:
        vocab[k] = num[("raw" if k[0] == "raw" else "rx", k[1], k[2])]
    sents = sorted(C.enumerate_sentences(gs.bnf, gs.start, vocab, NMAX))
    out = ["pub mod %s {" % name, "    #![allow(dead_code, unused_imports)]",
           "    use crate::parser::{LookaheadDFA, ParseType, Production, Trans};",
           "    use crate::lr_parser::{LR1State, LRAction, LRParseTable, LRProduction};"]

    def const_block(pat, decl_pat):
        m = re.search(decl_pat, src)
        if not m:
            return None
        blk = _block(src, pat)
        return src[m.start():m.start() + (src.index(blk, m.start()) - m.start())] + blk + ";"

    for pat, decl in ((r"pub const TERMINAL_NAMES[^=]*=\s*&", r"pub const TERMINAL_NAMES"),
                      (r"pub const NON_TERMINALS[^=]*=\s*&", r"pub const NON_TERMINALS"),
                      (r"pub const LOOKAHEAD_AUTOMATA[^=]*=\s*&", r"pub const LOOKAHEAD_AUTOMATA"),
                      (r"static PARSE_TABLE: LRParseTable = LRParseTable", r"static PARSE_TABLE"),
                      (r"pub const PRODUCTIONS[^=]*=\s*&", r"pub const PRODUCTIONS")):
        b = const_block(pat, decl)
        if b:
            b = b.replace("static PARSE_TABLE", "pub static PARSE_TABLE")
            out.append("    " + b.replace("\n", "\n    "))
    start_idx = T.nts.index(T.start)
    out.append("    pub const START: usize = %d;" % start_idx)
    out.append("    pub const MAX_K: usize = %d;" % (T.max_k if T.max_k else 1))
    out.append("    pub const ERROR_TERMINAL: u16 = %d;" % T.error_index)
    out.append("    pub const FIRST: u16 = 5;")
    out.append("    pub const NSENT: usize = %d;" % len(sents))
    rows = ", ".join("(%d, [%s])" % (len(s), ", ".join(str(x) for x in (list(s) + [0] * NMAX)[:NMAX])) for s in sents)
    out.append("    pub static SENTENCES: [(usize, [u16; %d]); %d] = [%s];" % (NMAX, len(sents), rows))
    out.append("    /// grammar-as-written membership for token strings of length <= %d" % NMAX)
    out.append("    pub fn member(t: &[u16; %d], n: usize) -> bool {" % NMAX)
    out.append("        let mut i = 0;")
    out.append("        while i < NSENT {")
    out.append("            let (len, s) = SENTENCES[i];")
    out.append("            if len == n {")
    out.append("                let mut j = 0; let mut eq = true;")
    out.append("                while j < %d { if j < n && s[j] != t[j] { eq = false; } j += 1; }" % NMAX)
    out.append("                if eq { return true; }")
    out.append("            }")
    out.append("            i += 1;")
    out.append("        }")
    out.append("        false")
    out.append("    }")
    out.append("}")
    return "\n".join(out), {"grammar": art["grammar"], "sentences_le_%d" % NMAX: len(sents), "productions": len(T.prods) or len(getattr(T, "lr_prods", [])), "max_k": T.max_k}


def ensure():
    """(Re)generates the tables file from /repo's current tree.  Returns info dict."""
    parol = parol_bin()
    files = [os.path.join(VERIF, "grammars", g + ".par") for g in LL_GRAMMARS + LR_GRAMMARS]
    with flock("gen-cache"):
        arts = P.artifacts(parol, files, want_parser=True)
    mods, info = [], {}
    for g, a in zip(LL_GRAMMARS + LR_GRAMMARS, arts):
        if a["rc"] != 0 or not a.get("parser"):
            # keep the harness crate compiling: an empty module makes the harness fail to compile
            # visibly (missing items) instead of silently passing
            info[g] = {"error": a["out"][-300:]}
            continue
        m, i = module_for(g, a)
        mods.append(m)
        info[g] = i
    os.makedirs(os.path.dirname(OUT), exist_ok=True)
    text = "// generated by /verif/lib/coretables.py from the parser sources written by the real parol\n" + "\n\n".join(mods) + "\n"
    old = open(OUT).read() if os.path.exists(OUT) else None
    if old != text:
        open(OUT, "w").write(text)
    return info
