"""Shared plumbing for /verif checks: paths, builds of /repo, evidence, known findings."""
import json, os, subprocess, sys, time, shutil, hashlib, fcntl, contextlib

VERIF = "/verif"
REPO = "/repo"
BUILD = os.path.join(VERIF, "build")
EVID = os.path.join(VERIF, "evidence")
TARGET = os.path.join(BUILD, "target")          # native cargo target dir (debug profile)
CEX_DIR = os.path.join(BUILD, "cex")            # replay files for VIOLATION lines

ENV = dict(os.environ)
ENV.update({"CARGO_NET_OFFLINE": "true", "GOPROXY": "off", "PIP_NO_INDEX": "1",
            "CARGO_TERM_COLOR": "never"})

EXIT_OK, EXIT_VIOLATION, EXIT_INCONCLUSIVE = 0, 1, 2


def tier():
    return os.environ.get("VERIF_TIER", "quick")


def seed():
    try:
        return int(os.environ.get("VERIF_SEED", "0"))
    except ValueError:
        return 0


def log(*a):
    print(*a, file=sys.stderr, flush=True)


def sh(cmd, cwd=None, env=None, timeout=None, check=False, input=None):
    """Run a command, return (rc, stdout+stderr)."""
    e = dict(ENV)
    if env:
        e.update(env)
    try:
        p = subprocess.run(cmd, cwd=cwd, env=e, timeout=timeout, input=input,
                           stdout=subprocess.PIPE, stderr=subprocess.STDOUT, text=True,
                           shell=isinstance(cmd, str))
        rc, out = p.returncode, p.stdout
    except subprocess.TimeoutExpired as ex:
        out = ex.stdout or ""
        if isinstance(out, bytes):
            out = out.decode("utf-8", "replace")
        rc = 124
    if check and rc != 0:
        raise RuntimeError("command failed (%s): %s\n%s" % (rc, cmd, out[-4000:]))
    return rc, out


@contextlib.contextmanager
def flock(name):
    os.makedirs(BUILD, exist_ok=True)
    f = open(os.path.join(BUILD, name + ".lock"), "w")
    try:
        fcntl.flock(f, fcntl.LOCK_EX)
        yield
    finally:
        fcntl.flock(f, fcntl.LOCK_UN)
        f.close()


def repo_head():
    rc, out = sh(["git", "-C", REPO, "rev-parse", "HEAD"])
    rc2, st = sh(["git", "-C", REPO, "status", "--porcelain", "--untracked-files=no"])
    return out.strip() + ("+dirty" if st.strip() else "")


def build_native(packages=("parol",), features=None, rustflags=None, target=None, bins=True):
    """cargo build (dev profile) of workspace packages of /repo's *current working tree*.
    Returns the directory holding the binaries.  Incremental: cargo decides what to rebuild."""
    target = target or TARGET
    cmd = ["cargo", "build", "--offline"]
    for p in packages:
        cmd += ["-p", p]
    if features:
        cmd += ["--features", features]
    env = {"CARGO_TARGET_DIR": target}
    if rustflags:
        env["RUSTFLAGS"] = rustflags
    t0 = time.time()
    with flock("native-" + hashlib.md5(target.encode()).hexdigest()[:8]):
        rc, out = sh(cmd, cwd=REPO, env=env, timeout=3600)
    if rc != 0:
        raise RuntimeError("native build of /repo failed:\n" + out[-6000:])
    log("[build] %s in %.1fs" % (" ".join(packages), time.time() - t0))
    return os.path.join(target, "debug")


def parol_bin():
    return os.path.join(build_native(("parol",)), "parol")


# --------------------------------------------------------------------------- known findings

def load_known():
    p = os.path.join(VERIF, "known_findings.json")
    if not os.path.exists(p):
        return []
    return json.load(open(p))["findings"]


def known_for(prop):
    """Listed, unrepaired findings of a property (status 'known'); 'fixed' entries suppress nothing."""
    return [f for f in load_known() if f["property"] == prop and f.get("status") == "known"]


# --------------------------------------------------------------------------- evidence / verdict

class Run:
    """Collects what a check did and writes evidence + verdict lines."""

    def __init__(self, prop, level):
        self.prop = prop
        self.level = level
        self.t0 = time.time()
        self.cov = {}
        self.assumptions = []
        self.violations = []       # list of (description, replay_path)
        self.known_hits = []       # list of description
        self.inconclusive = []     # list of reasons
        os.makedirs(EVID, exist_ok=True)
        os.makedirs(CEX_DIR, exist_ok=True)

    def assume(self, *texts):
        for t in texts:
            if t not in self.assumptions:
                self.assumptions.append(t)

    def violation(self, what, replay_obj):
        """Record a reproduced violation; replay_obj is JSON-serialisable, written to a file."""
        h = hashlib.sha1(json.dumps(replay_obj, sort_keys=True, default=str).encode()).hexdigest()[:10]
        path = os.path.join(CEX_DIR, "%s-%s.json" % (self.prop, h))
        json.dump({"property": self.prop, "what": what, "replay": replay_obj,
                   "repo": repo_head()}, open(path, "w"), indent=1, default=str)
        self.violations.append((what, path))

    def known(self, what):
        self.known_hits.append(what)

    def inconc(self, why):
        self.inconclusive.append(why)

    def finish(self):
        wall = time.time() - self.t0
        cov = dict(self.cov)
        ev = {
            "property_id": self.prop,
            "tier": tier() if tier() in ("quick", "thorough") else "quick",
            "seed": seed(),
            "level": self.level,
            "coverage": cov,
            "assumptions": self.assumptions,
            "wall_s": round(wall, 2),
            "violations": len(self.violations),
            "known_findings_hit": self.known_hits,
            "inconclusive": self.inconclusive,
            "repo_head": repo_head(),
        }
        path = os.path.join(EVID, self.prop + ".json")
        tmp = path + ".tmp"
        json.dump(ev, open(tmp, "w"), indent=1, default=str)
        os.replace(tmp, path)
        for k in self.known_hits:
            print("KNOWN-FINDING: property=%s %s" % (self.prop, k))
        for what, rp in self.violations:
            print("VIOLATION property=%s replay=%s" % (self.prop, rp))
            print("  " + what)
        if self.violations:
            print("RESULT %s: VIOLATED (%d) in %.1fs" % (self.prop, len(self.violations), wall))
            return EXIT_VIOLATION
        if self.inconclusive:
            for w in self.inconclusive:
                print("INCONCLUSIVE %s: %s" % (self.prop, w))
            print("RESULT %s: INCONCLUSIVE in %.1fs" % (self.prop, wall))
            return EXIT_INCONCLUSIVE
        print("RESULT %s: holds within the stated bounds (%.1fs)" % (self.prop, wall))
        return EXIT_OK
