//! C32 harnesses.  See /verif/DESIGN.md §4 (C32).
//!
//! The packed state is read and built through `transmute` (the struct is a
//! single `u128`), so the abstraction function below does not go through any
//! accessor of the implementation under test.

use parol::KTuple;
use parol::analysis::compiled_terminal::{CompiledTerminal, EPS};
use parol::analysis::k_tuple::{TerminalString, Terminals};

const _: () = assert!(core::mem::size_of::<Terminals>() == 16);

const MAXK: usize = 10;
const EOI: u16 = 0;

fn raw(t: &Terminals) -> u128 {
    unsafe { core::mem::transmute_copy::<Terminals, u128>(t) }
}
fn from_raw(r: u128) -> Terminals {
    unsafe { core::mem::transmute::<u128, Terminals>(r) }
}

#[derive(Clone, Copy)]
struct Seq {
    a: [u16; MAXK],
    n: usize,
}

fn bits_of(r: u128) -> usize {
    (r >> 124) as usize
}
fn len_of(r: u128) -> usize {
    ((r >> 120) & 0xF) as usize
}
fn mask_of(r: u128) -> u128 {
    (1u128 << bits_of(r)) - 1
}
fn slot(r: u128, i: usize) -> u128 {
    (r >> (i * bits_of(r))) & mask_of(r)
}

/// Representation invariant of a packed terminal string.
fn valid(r: u128) -> bool {
    let b = bits_of(r);
    let n = len_of(r);
    if b < 1 || b > 12 || n > MAXK {
        return false;
    }
    let m = mask_of(r);
    let mut i = 0;
    while i < MAXK {
        let s = slot(r, i);
        if i < n {
            // EPS only as the single element of the epsilon tuple
            if s == m && n != 1 {
                return false;
            }
            // nothing after end-of-input
            if s == EOI as u128 && i + 1 != n {
                return false;
            }
        } else if s != 0 {
            // unused slots are zero
            return false;
        }
        i += 1;
    }
    // bits between 10*b and 120 are zero
    let payload = r & ((1u128 << 120) - 1);
    if (payload >> (MAXK * b)) != 0 && MAXK * b < 120 {
        return false;
    }
    true
}

/// Abstraction function: packed state -> sequence.
fn abs(r: u128) -> Seq {
    let m = mask_of(r);
    let n = len_of(r);
    let mut a = [0u16; MAXK];
    let mut i = 0;
    while i < MAXK {
        if i < n {
            let s = slot(r, i);
            a[i] = if s == m { EPS } else { s as u16 };
        }
        i += 1;
    }
    Seq { a, n }
}

fn is_eps_seq(s: &Seq) -> bool {
    s.n == 1 && s.a[0] == EPS
}
fn ends_with_eoi(s: &Seq) -> bool {
    s.n > 0 && s.a[s.n - 1] == EOI
}

fn any_valid() -> (u128, Seq) {
    let r: u128 = kani::any();
    kani::assume(valid(r));
    (r, abs(r))
}
fn any_valid_with_bits(b: usize) -> (u128, Seq) {
    let r: u128 = kani::any();
    kani::assume(valid(r));
    kani::assume(bits_of(r) == b);
    (r, abs(r))
}

fn same_seq(x: &Seq, y: &Seq) -> bool {
    if x.n != y.n {
        return false;
    }
    let mut i = 0;
    while i < MAXK {
        if i < x.n && x.a[i] != y.a[i] {
            return false;
        }
        i += 1;
    }
    true
}

/// first_k(a ++ b) on sequences that contain no EPS.
fn take_concat(a: &Seq, b: &Seq, k: usize) -> Seq {
    let mut r = Seq { a: [0; MAXK], n: 0 };
    let mut i = 0;
    while i < MAXK {
        if i < a.n && r.n < k {
            r.a[r.n] = a.a[i];
            r.n += 1;
        }
        i += 1;
    }
    let mut j = 0;
    while j < MAXK {
        if j < b.n && r.n < k {
            r.a[r.n] = b.a[j];
            r.n += 1;
        }
        j += 1;
    }
    r
}

// ---------------------------------------------------------------------------
// new / eps / end
// ---------------------------------------------------------------------------

#[kani::proof]
#[kani::unwind(12)]
fn c32_new_width() {
    let max: usize = kani::any();
    kani::assume(max <= 4094);
    let t = Terminals::new(max);
    let r = raw(&t);
    assert!(valid(r));
    let b = bits_of(r);
    // every terminal index 0..=max fits and differs from the EPS pattern
    assert!((max as u128) < mask_of(r));
    // the width is minimal with that property
    assert!(b == 1 || ((1u128 << (b - 1)) - 1) <= max as u128);
    assert!(len_of(r) == 0);
    assert!(t.is_empty() && t.len() == 0 && !t.is_eps());
    assert!(t.bits() as usize == b && t.mask() == mask_of(r));
    kani::cover!(max == 4094 && b == 12);
    kani::cover!(max == 2 && b == 2);
    kani::cover!(max == 3 && b == 3);
}

#[kani::proof]
#[kani::should_panic]
fn c32_new_rejects_over_limit() {
    // documented limit: 12 bits; an alphabet that needs 13 must be refused, not truncated
    let max: usize = kani::any();
    kani::assume(max >= 4095 && max <= 70000);
    let _ = Terminals::new(max);
}

#[kani::proof]
#[kani::unwind(12)]
fn c32_eps_end() {
    let max: usize = kani::any();
    kani::assume(max <= 4094);
    let e = Terminals::eps(max);
    let re = raw(&e);
    assert!(valid(re));
    let se = abs(re);
    assert!(is_eps_seq(&se));
    assert!(e.is_eps() && e.len() == 1 && !e.is_empty());
    assert!(e.get(0) == Some(CompiledTerminal(EPS)));
    let d = Terminals::end(max);
    let rd = raw(&d);
    assert!(valid(rd));
    let sd = abs(rd);
    assert!(sd.n == 1 && sd.a[0] == EOI);
    assert!(!d.is_eps() && d.len() == 1);
    assert!(d.is_k_complete(10) && d.is_k_complete(1));
    assert!(bits_of(re) == bits_of(rd) && bits_of(re) == bits_of(raw(&Terminals::new(max))));
    kani::cover!(max == 4094);
    kani::cover!(max == 0);
}

// ---------------------------------------------------------------------------
// push / get / iter / observers
// ---------------------------------------------------------------------------

#[kani::proof]
#[kani::unwind(12)]
fn c32_push() {
    let (r, s0) = any_valid();
    kani::assume(!is_eps_seq(&s0));
    let x: u16 = kani::any();
    kani::assume((x as u128) < mask_of(r));
    let mut t = from_raw(r);
    let res = t.push(CompiledTerminal(x));
    let r1 = raw(&t);
    if s0.n >= MAXK {
        assert!(res.is_err());
        assert!(r1 == r);
    } else {
        assert!(res.is_ok());
        if ends_with_eoi(&s0) {
            // end-of-input absorbs
            assert!(r1 == r);
        } else {
            assert!(valid(r1));
            assert!(bits_of(r1) == bits_of(r));
            let s1 = abs(r1);
            assert!(s1.n == s0.n + 1);
            assert!(s1.a[s0.n] == x);
            let mut i = 0;
            while i < MAXK {
                if i < s0.n {
                    assert!(s1.a[i] == s0.a[i]);
                }
                i += 1;
            }
        }
    }
    core::mem::forget(res);
    kani::cover!(s0.n == 9 && bits_of(r) == 12 && x == 4094);
    kani::cover!(s0.n == 10);
    kani::cover!(s0.n == 3 && bits_of(r) == 2);
}

#[kani::proof]
#[kani::unwind(12)]
fn c32_get_iter() {
    let (r, s) = any_valid();
    let t = from_raw(r);
    let i: usize = kani::any();
    kani::assume(i < 16);
    let g = t.get(i);
    if i < s.n {
        assert!(g == Some(CompiledTerminal(s.a[i])));
    } else {
        assert!(g.is_none());
    }
    let mut it = t.iter();
    let mut j = 0;
    while j < MAXK + 1 {
        let v = it.next();
        if j < s.n {
            assert!(v == Some(s.a[j]));
        } else {
            assert!(v.is_none());
        }
        j += 1;
    }
    kani::cover!(s.n == 10 && bits_of(r) == 12 && i == 9);
    kani::cover!(is_eps_seq(&s));
    kani::cover!(s.n == 0);
}

#[kani::proof]
#[kani::unwind(12)]
fn c32_observers() {
    let (r, s) = any_valid();
    let t = from_raw(r);
    let k: usize = kani::any();
    kani::assume(k <= MAXK);
    assert!(t.len() == s.n);
    assert!(t.is_empty() == (s.n == 0));
    assert!(t.is_eps() == is_eps_seq(&s));
    assert!(t.k_len(k) == if s.n < k { s.n } else { k });
    let complete = !is_eps_seq(&s) && (s.n >= k || ends_with_eoi(&s));
    assert!(t.is_k_complete(k) == complete);
    assert!(t.next_index() as usize == s.n);
    assert!(t.bits() as usize == bits_of(r));
    let mut c = t;
    c.clear();
    let rc = raw(&c);
    assert!(valid(rc) && len_of(rc) == 0 && bits_of(rc) == bits_of(r));
    kani::cover!(s.n == 10 && k == 10);
    kani::cover!(ends_with_eoi(&s) && s.n < k);
    kani::cover!(is_eps_seq(&s));
}

#[kani::proof]
#[kani::unwind(12)]
fn c32_of_truncates() {
    let (r, s) = any_valid();
    let k: usize = kani::any();
    kani::assume(k <= MAXK);
    let t = Terminals::of(k, from_raw(r));
    let r1 = raw(&t);
    let s1 = abs(r1);
    assert!(bits_of(r1) == bits_of(r));
    let n1 = if s.n < k { s.n } else { k };
    assert!(s1.n == n1);
    let mut i = 0;
    while i < MAXK {
        if i < n1 {
            assert!(s1.a[i] == s.a[i]);
        } else {
            // unused slots are cleared, so equal sequences are equal words
            assert!(slot(r1, i) == 0);
        }
        i += 1;
    }
    assert!(valid(r1));
    kani::cover!(s.n == 10 && k == 3 && bits_of(r) == 12);
    kani::cover!(s.n == 2 && k == 10);
}

// ---------------------------------------------------------------------------
// k-truncated concatenation
// ---------------------------------------------------------------------------

fn k_concat_body(b: usize) {
    let (r1, a) = any_valid_with_bits(b);
    let (r2, o) = any_valid_with_bits(b);
    let k: usize = kani::any();
    kani::assume(k >= 1 && k <= MAXK);
    // callers only concatenate tuples built for the same k
    kani::assume(a.n <= k);
    let t = from_raw(r1).k_concat(&from_raw(r2), k);
    let rr = raw(&t);
    assert!(valid(rr));
    assert!(bits_of(rr) == b);
    let res = abs(rr);
    if is_eps_seq(&o) || o.n == 0 {
        // w . eps = w
        assert!(rr == r1);
    } else if is_eps_seq(&a) {
        // eps . w = first_k(w)
        let e = Seq { a: [0; MAXK], n: 0 };
        let exp = take_concat(&e, &o, k);
        assert!(same_seq(&res, &exp));
    } else if ends_with_eoi(&a) {
        // nothing follows end-of-input
        assert!(rr == r1);
    } else {
        let exp = take_concat(&a, &o, k);
        assert!(same_seq(&res, &exp));
    }
    kani::cover!(a.n == 4 && o.n == 10 && k == 10);
    kani::cover!(is_eps_seq(&a) && o.n == 3 && k == 2);
    kani::cover!(a.n == 2 && ends_with_eoi(&o) && o.n == 2 && k == 5);
}

#[kani::proof]
#[kani::unwind(12)]
fn c32_k_concat() {
    let b: usize = kani::any();
    kani::assume(b >= 1 && b <= 12);
    k_concat_body(b);
}

// ---------------------------------------------------------------------------
// equality / ordering
// ---------------------------------------------------------------------------

#[kani::proof]
#[kani::unwind(12)]
fn c32_eq_ord() {
    use core::cmp::Ordering::*;
    let b: usize = kani::any();
    kani::assume(b >= 1 && b <= 12);
    let (r1, s1) = any_valid_with_bits(b);
    let (r2, s2) = any_valid_with_bits(b);
    let (r3, _s3) = any_valid_with_bits(b);
    let (t1, t2, t3) = (from_raw(r1), from_raw(r2), from_raw(r3));
    // equality of packed words is equality of the denoted sequences
    assert!((t1 == t2) == same_seq(&s1, &s2));
    // cmp is a total order consistent with eq
    let c12 = t1.cmp(&t2);
    let c21 = t2.cmp(&t1);
    assert!((c12 == Equal) == (t1 == t2));
    assert!(c12 == c21.reverse());
    let c23 = t2.cmp(&t3);
    let c13 = t1.cmp(&t3);
    if c12 != Greater && c23 != Greater {
        assert!(c13 != Greater);
    }
    if c12 == Less && c23 != Greater {
        assert!(c13 == Less);
    }
    assert!(t1.partial_cmp(&t2) == Some(c12));
    // shorter sequences order first; equal length: first differing element from the
    // *last* position decides (numeric order of the packed word) - only the
    // length rule is part of the claim
    if s1.n < s2.n {
        assert!(c12 == Less);
    }
    kani::cover!(s1.n == 10 && s2.n == 10 && c12 == Less && b == 12);
    kani::cover!(c12 == Equal && s1.n == 3);
}

// ---------------------------------------------------------------------------
// TerminalString / KTuple layer
// ---------------------------------------------------------------------------

#[kani::proof]
#[kani::unwind(12)]
fn c32_terminal_string() {
    let b: usize = kani::any();
    kani::assume(b >= 1 && b <= 12);
    let (r1, a) = any_valid_with_bits(b);
    let (r2, o) = any_valid_with_bits(b);
    let k: usize = kani::any();
    kani::assume(k >= 1 && k <= MAXK);
    kani::assume(a.n <= k);
    let t1 = from_raw(r1);
    let t2 = from_raw(r2);
    // the completeness tag of a well-formed TerminalString mirrors is_k_complete(k)
    let ts1 = if t1.is_k_complete(k) {
        TerminalString::Complete(t1)
    } else {
        TerminalString::Incomplete(t1)
    };
    let ts2 = if t2.is_k_complete(k) {
        TerminalString::Complete(t2)
    } else {
        TerminalString::Incomplete(t2)
    };
    assert!(ts1.len() == a.n && ts1.is_empty() == (a.n == 0));
    assert!(ts1.is_eps() == is_eps_seq(&a));
    assert!(ts1.is_complete(k) == ts1.is_k_complete());
    let c = ts1.k_concat(&ts2, k);
    // tag consistent after concatenation
    assert!(c.is_k_complete() == c.inner().is_k_complete(k));
    // a complete string is a left zero of concatenation
    if ts1.is_k_complete() {
        assert!(raw(c.inner()) == r1);
    } else {
        assert!(raw(c.inner()) == raw(&t1.k_concat(&t2, k)));
    }
    // push keeps the tag consistent and appends
    let x: u16 = kani::any();
    kani::assume((x as u128) < mask_of(r1));
    kani::assume(!is_eps_seq(&a));
    let mut p = ts1;
    let res = p.push(CompiledTerminal(x), k);
    assert!(res.is_ok());
    core::mem::forget(res);
    if ts1.is_k_complete() {
        assert!(raw(p.inner()) == r1);
    } else {
        let sp = abs(raw(p.inner()));
        assert!(sp.n == a.n + 1 && sp.a[a.n] == x);
        assert!(p.is_k_complete() == p.inner().is_k_complete(k));
    }
    assert!(ts1.clear().len() == 0 && !ts1.clear().is_k_complete());
    assert!(ts1.make_complete().is_k_complete() && !ts1.make_incomplete().is_k_complete());
    kani::cover!(!ts1.is_k_complete() && c.is_k_complete() && o.n == 2);
    kani::cover!(ts1.is_k_complete());
}

#[kani::proof]
#[kani::unwind(12)]
fn c32_ktuple() {
    let b: usize = kani::any();
    kani::assume(b >= 1 && b <= 12);
    let (r1, a) = any_valid_with_bits(b);
    let (r2, o) = any_valid_with_bits(b);
    let k: usize = kani::any();
    kani::assume(k >= 1 && k <= MAXK);
    let kt1 = KTuple::of(from_raw(r1), k);
    let kt2 = KTuple::of(from_raw(r2), k);
    // KTuple::of = first_k
    let n1 = if a.n < k { a.n } else { k };
    assert!(kt1.len() == n1 && kt1.k() == k);
    let s1 = abs(raw(kt1.terminals()));
    let mut i = 0;
    while i < MAXK {
        if i < n1 {
            assert!(s1.a[i] == a.a[i]);
        }
        i += 1;
    }
    assert!(valid(raw(kt1.terminals())));
    assert!(kt1.is_k_complete() == kt1.terminals().is_k_complete(k));
    assert!(kt1.is_eps() == (is_eps_seq(&a)));
    // equality of k-tuples built for the same k is equality of the sequences
    let s2 = abs(raw(kt2.terminals()));
    assert!((kt1 == kt2) == same_seq(&s1, &s2));
    assert!((kt1.cmp(&kt2) == core::cmp::Ordering::Equal) == (kt1 == kt2));
    assert!(kt1.cmp(&kt2) == kt2.cmp(&kt1).reverse());
    // concatenation agrees with the Terminals level and keeps the tag consistent
    let c = kt1.k_concat(&kt2, k);
    assert!(raw(c.terminals()) == raw(&kt1.terminals().k_concat(kt2.terminals(), k)) || kt1.is_k_complete());
    if kt1.is_k_complete() {
        assert!(raw(c.terminals()) == raw(kt1.terminals()));
    }
    assert!(c.is_k_complete() == c.terminals().is_k_complete(k));
    // set_k re-tags
    let k2: usize = kani::any();
    kani::assume(k2 >= 1 && k2 <= MAXK);
    let r = kt1.set_k(k2);
    assert!(r.k() == k2 && raw(r.terminals()) == raw(kt1.terminals()));
    assert!(r.is_k_complete() == r.terminals().is_k_complete(k2));
    kani::cover!(a.n == 10 && k == 4 && o.n == 1);
    kani::cover!(kt1 == kt2 && n1 == 3);
}

#[kani::proof]
#[kani::unwind(12)]
fn c32_ktuple_from_slice() {
    let max: usize = kani::any();
    kani::assume(max <= 4094);
    let k: usize = kani::any();
    kani::assume(k >= 1 && k <= MAXK);
    let n: usize = kani::any();
    kani::assume(n <= 4);
    let xs: [u16; 4] = kani::any();
    let mut cts = [CompiledTerminal(0); 4];
    let mut i = 0;
    while i < 4 {
        kani::assume(xs[i] as usize <= max);
        cts[i] = CompiledTerminal(xs[i]);
        i += 1;
    }
    let kt = KTuple::from_slice(&cts[..n], k, max);
    let r = raw(kt.terminals());
    assert!(valid(r));
    let s = abs(r);
    // expected: first_k of the slice, cut after the first EOI
    let mut e = Seq { a: [0; MAXK], n: 0 };
    let mut j = 0;
    let mut stop = false;
    while j < 4 {
        if j < n && j < k && !stop {
            e.a[e.n] = xs[j];
            e.n += 1;
            if xs[j] == EOI {
                stop = true;
            }
        }
        j += 1;
    }
    assert!(same_seq(&s, &e));
    assert!(kt.k() == k);
    assert!(kt.is_k_complete() == (e.n >= k || ends_with_eoi(&e)));
    kani::cover!(n == 4 && k == 3 && max == 4094 && xs[2] == 4094);
    kani::cover!(n == 3 && xs[1] == 0);
}

// ---------------------------------------------------------------------------
// vacuity twin: must FAIL
// ---------------------------------------------------------------------------

#[kani::proof]
#[kani::unwind(12)]
fn c32_twin_must_fail() {
    let (r, s) = any_valid();
    kani::assume(s.n == 10 && bits_of(r) == 12);
    let t = from_raw(r);
    let _ = t.get(3);
    assert!(false);
}
