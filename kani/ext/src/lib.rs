//! External Kani harness crate (engine K, public-API targets).
//!
//! C32: the packed k-tuple representation (`parol::analysis::k_tuple`) behaves
//! like a bounded sequence of terminals.  Every harness starts from an
//! *arbitrary valid packed state* (a symbolic `u128` constrained only by the
//! representation invariant), runs ONE real operation compiled from /repo and
//! asserts (a) the result denotes the sequence the sequence-level operation
//! yields and (b) the representation invariant is re-established.
#![allow(clippy::all)]

#[cfg(kani)]
mod c32;
