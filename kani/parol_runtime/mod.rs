//! In-crate Kani harnesses for `parol_runtime` (engine K).  Included from
//! /repo/crates/parol_runtime/src/lib.rs behind `#[cfg(kani)]`.
#![allow(dead_code, unused_imports, static_mut_refs, clippy::all)]



pub(crate) mod support;
/// tables copied from the parser sources the freshly built parol generates (lib/coretables.py)
#[path = "/verif/build/gen/core_tables.rs"]
pub(crate) mod tables;
mod c31_recovery;
mod c08_eval;
pub(crate) mod stream_model;
pub(crate) mod ll_core;
mod c14_buffer;
mod c17_kernels;

// counterexample replay (written by the runner for `cargo kani playback`, removed afterwards)
mod playback_gen;
