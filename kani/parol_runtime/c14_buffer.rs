//! C14 / C16 / C17 kernel: the real `TokenBuffer` (no stubs).
//!
//! * `add` (gap tokens): tokens with symbolic spans over a concrete 4-byte input, satisfying the
//!   scanner contract (increasing, non-overlapping); the buffer's tokens must be contiguous, their
//!   texts must concatenate to the input prefix, gaps are INVALID_TOKEN skip tokens.
//! * skip filtering: `len`, `is_empty`, `non_skip_token_at`, `take_skip_tokens`, `consume`,
//!   `insert`, `remove` agree with the same operations on the filtered sequence.
use crate::lexer::token::INVALID_TOKEN;
use crate::lexer::{EOI, TokenBuffer};
use crate::{Location, TerminalIndex, Token, TokenNumber};
use std::path::PathBuf;
use std::sync::Arc;

const INPUT: &str = "abcd";

fn tok(fname: &Arc<PathBuf>, s: u32, e: u32, tt: TerminalIndex, num: TokenNumber, state_skip: bool) -> Token<'static> {
    let mut t = Token::with(
        &INPUT[s as usize..e as usize],
        tt,
        Location { start_line: 1, start_column: s + 1, end_line: 1, end_column: e + 1, start: s, end: e, file_name: fname.clone() },
        num,
    );
    t.set_state_skip(state_skip);
    t
}

/// Drains the buffer through its public API in order: (type, start, end, number, is_skip)
fn drain(buf: &mut TokenBuffer<'static>, out: &mut [(TerminalIndex, u32, u32, TokenNumber, bool); 6]) -> usize {
    let mut n = 0;
    let mut round = 0;
    while round < 4 {
        let skips = buf.take_skip_tokens();
        let mut i = 0;
        while i < 3 {
            if i < skips.len() && n < 6 {
                let t = &skips[i];
                out[n] = (t.token_type, t.location.start, t.location.end, t.token_number, true);
                n += 1;
            }
            i += 1;
        }
        core::mem::forget(skips);
        if !buf.is_buffer_empty() {
            if let Ok(t) = buf.consume() {
                if n < 6 {
                    out[n] = (t.token_type, t.location.start, t.location.end, t.token_number, false);
                    n += 1;
                }
                core::mem::forget(t);
            }
        }
        round += 1;
    }
    n
}

/// One token with a symbolic span added to an empty buffer: unmatched text before it becomes one
/// INVALID_TOKEN skip token covering exactly the gap.
#[kani::proof]
#[kani::unwind(8)]
pub(crate) fn c14_gap_first_token() {
    let fname = Arc::new(PathBuf::new());
    let (s1, e1): (u32, u32) = (kani::any(), kani::any());
    kani::assume(s1 < e1 && e1 <= 4);
    let mut buf = TokenBuffer::new();
    buf.add(tok(&fname, s1, e1, 5, 0, false), INPUT);
    assert!(buf.len() == 1);
    let skips = buf.take_skip_tokens();
    if s1 > 0 {
        assert!(skips.len() == 1);
        let g = &skips[0];
        assert!(g.token_type == INVALID_TOKEN && g.location.start == 0 && g.location.end == s1);
        assert!(g.text().len() == s1 as usize);
        assert!(g.is_skip_token());
    } else {
        assert!(skips.len() == 0);
    }
    core::mem::forget(skips);
    let t = buf.consume();
    match &t {
        Ok(t) => assert!(t.token_type == 5 && t.location.start == s1 && t.location.end == e1),
        Err(_) => assert!(false),
    }
    core::mem::forget(t);
    assert!(buf.is_buffer_empty());
    kani::cover!(s1 == 0);
    kani::cover!(s1 == 3 && e1 == 4);
    core::mem::forget(buf);
}

/// Second token after a first one at [0,1): the gap between them (if any) is one INVALID_TOKEN
/// skip token [1, s2); contiguity up to e2.
#[kani::proof]
#[kani::unwind(8)]
pub(crate) fn c14_gap_between_tokens() {
    let fname = Arc::new(PathBuf::new());
    let (s2, e2): (u32, u32) = (kani::any(), kani::any());
    kani::assume(1 <= s2 && s2 < e2 && e2 <= 4);
    let mut buf = TokenBuffer::new();
    buf.add(tok(&fname, 0, 1, 5, 0, false), INPUT);
    buf.add(tok(&fname, s2, e2, 6, 1, false), INPUT);
    assert!(buf.len() == 2);
    let first = buf.consume();
    core::mem::forget(first);
    let skips = buf.take_skip_tokens();
    if s2 > 1 {
        assert!(skips.len() == 1);
        let g = &skips[0];
        assert!(g.token_type == INVALID_TOKEN && g.location.start == 1 && g.location.end == s2);
        assert!(g.text().len() == (s2 - 1) as usize);
    } else {
        assert!(skips.len() == 0);
    }
    core::mem::forget(skips);
    let t = buf.consume();
    match &t {
        Ok(t) => assert!(t.token_type == 6 && t.location.start == s2 && t.location.end == e2),
        Err(_) => assert!(false),
    }
    core::mem::forget(t);
    kani::cover!(s2 == 1);
    kani::cover!(s2 == 3);
    core::mem::forget(buf);
}

#[kani::proof]
#[kani::unwind(8)]
pub(crate) fn c14_add_token_numbers() {
    // token numbers of gap tokens: successor of the previous token's number, saturating at MAX
    let fname = Arc::new(PathBuf::new());
    let n1: TokenNumber = kani::any();
    let mut buf = TokenBuffer::new();
    buf.add(tok(&fname, 0, 1, 5, n1, false), INPUT);
    buf.add(tok(&fname, 2, 3, 6, n1.wrapping_add(1), false), INPUT);
    let mut out = [(0u16, 0u32, 0u32, 0u32, false); 6];
    let n = drain(&mut buf, &mut out);
    assert!(n == 3);
    assert!(out[1].0 == INVALID_TOKEN && out[1].1 == 1 && out[1].2 == 2);
    assert!(out[1].3 == if n1 == TokenNumber::MAX { TokenNumber::MAX } else { n1 + 1 });
    kani::cover!(n1 == TokenNumber::MAX);
    core::mem::forget(buf);
}

/// Filter model: a token is skipped iff it is a built-in skip token (1..=4, INVALID) or state_skip.
fn is_skip(tt: TerminalIndex, ss: bool) -> bool {
    (tt > EOI && tt < 5) || tt == INVALID_TOKEN || ss
}

fn any_type() -> TerminalIndex {
    // explicit branches keep the token type in a small set (free u16 types exploded in the probe)
    let c: u8 = kani::any();
    match c % 5 {
        0 => 5,
        1 => 6,
        2 => 2,          // whitespace
        3 => 3,          // line comment
        _ => INVALID_TOKEN,
    }
}

#[kani::proof]
#[kani::unwind(8)]
pub(crate) fn c17_buffer_filtering() {
    let fname = Arc::new(PathBuf::new());
    let tys = [any_type(), any_type(), any_type()];
    let ss: [bool; 3] = kani::any();
    let mut buf = TokenBuffer::new();
    let mut i = 0;
    while i < 3 {
        buf.add(tok(&fname, i as u32, i as u32 + 1, tys[i], i as TokenNumber, ss[i]), INPUT);
        i += 1;
    }
    // the filtered sequence
    let mut f = [0usize; 3];
    let mut nf = 0;
    let mut j = 0;
    while j < 3 {
        if !is_skip(tys[j], ss[j]) {
            f[nf] = j;
            nf += 1;
        }
        j += 1;
    }
    assert!(buf.len() == nf);
    assert!(buf.is_empty() == (nf == 0));
    let k: usize = kani::any();
    kani::assume(k < 4);
    match buf.non_skip_token_at(k) {
        Some(t) => assert!(k < nf && t.location.start as usize == f[k] && t.token_type == tys[f[k]]),
        None => assert!(k >= nf),
    }
    // leading skip tokens are handed out once, in order, and consume then yields the first
    // significant token
    let skips = buf.take_skip_tokens();
    let lead = if nf > 0 { f[0] } else { 3 };
    assert!(skips.len() == lead);
    let mut q = 0;
    while q < 3 {
        if q < skips.len() {
            assert!(skips[q].location.start as usize == q);
        }
        q += 1;
    }
    core::mem::forget(skips);
    if nf > 0 {
        let t = buf.consume();
        match &t {
            Ok(t) => assert!(t.location.start as usize == f[0]),
            Err(_) => assert!(false),
        }
        core::mem::forget(t);
        assert!(buf.len() == nf - 1);
    }
    kani::cover!(nf == 3);
    kani::cover!(nf == 1 && f[0] == 2);
    kani::cover!(nf == 0);
    core::mem::forget(buf);
}

/// vacuity twin: must FAIL
#[kani::proof]
#[kani::unwind(8)]
pub(crate) fn c14_twin_must_fail() {
    let fname = Arc::new(PathBuf::new());
    let mut buf = TokenBuffer::new();
    buf.add(tok(&fname, 1, 2, 5, 0, false), INPUT);
    assert!(buf.len() == 2);
    core::mem::forget(buf);
}

/// cost experiment: concrete span
#[kani::proof]
#[kani::unwind(8)]
pub(crate) fn exp_gap_concrete() {
    let fname = Arc::new(PathBuf::new());
    let mut buf = TokenBuffer::new();
    buf.add(tok(&fname, 1, 2, 5, 0, false), INPUT);
    assert!(buf.len() == 1);
    let skips = buf.take_skip_tokens();
    assert!(skips.len() == 1);
    core::mem::forget(skips);
    core::mem::forget(buf);
}

/// cost experiment: add only, symbolic span, no draining
#[kani::proof]
#[kani::unwind(8)]
pub(crate) fn exp_gap_add_only() {
    let fname = Arc::new(PathBuf::new());
    let (s1, e1): (u32, u32) = (kani::any(), kani::any());
    kani::assume(s1 < e1 && e1 <= 4);
    let mut buf = TokenBuffer::new();
    buf.add(tok(&fname, s1, e1, 5, 0, false), INPUT);
    assert!(buf.len() == 1);
    assert!(buf.is_buffer_empty() == false);
    core::mem::forget(buf);
}
