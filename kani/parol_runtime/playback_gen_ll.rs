//! placeholder; the runner writes a counterexample test here for `cargo kani playback` and restores this file
