//! C08: `LookaheadDFA::eval` predicts production p iff the lookahead buffer begins with a path
//! from state 0 to a state accepting p; otherwise it reports a prediction error.
use super::support::{MatchFn, empty_stream, stub_format};
use crate::parser::{CompiledProductionIndex, INVALID_PROD};
use crate::{LexerError, LookaheadDFA, ParolError, ParserError, TerminalIndex, TokenStream, Trans};

pub(crate) const LA_MAX: usize = 4;
pub(crate) static mut LA: [TerminalIndex; LA_MAX] = [0; LA_MAX];

/// Model of `TokenStream::lookahead_token_type`: the buffer always holds exactly `k` significant
/// tokens (the real stream pads with EOI), position n >= k is refused.
pub(crate) fn stub_lookahead_token_type<'t, F>(
    ts: &mut TokenStream<'t, F>,
    n: usize,
) -> Result<TerminalIndex, LexerError>
where
    F: Fn(char) -> Option<usize> + 'static + Clone,
    't: 't,
{
    if n >= ts.k || n >= LA_MAX {
        Err(LexerError::LookaheadExceedsMaximum)
    } else {
        Ok(unsafe { LA[n] })
    }
}

pub(crate) fn stub_token_types<'t, F>(_ts: &TokenStream<'t, F>) -> Vec<TerminalIndex>
where
    F: Fn(char) -> Option<usize> + 'static + Clone,
    't: 't,
{
    Vec::new()
}

/// Reference walk: longest prefix of the lookahead that is a path from state 0 to an accepting
/// state; stops at the first token without a transition.
pub(crate) fn reference(prod0: CompiledProductionIndex, trans: &[Trans], k: usize, la: &[TerminalIndex; LA_MAX], max_t: usize) -> Option<usize> {
    let mut state = 0usize;
    let mut acc: Option<usize> = if prod0 > INVALID_PROD { Some(prod0 as usize) } else { None };
    let mut i = 0;
    let mut alive = true;
    while i < LA_MAX {
        if i < k && alive {
            let mut found = false;
            let mut t = 0;
            while t < max_t {
                if t < trans.len() && !found && trans[t].0 == state && trans[t].1 == la[i] {
                    found = true;
                    state = trans[t].2;
                    if trans[t].3 > INVALID_PROD {
                        acc = Some(trans[t].3 as usize);
                    }
                }
                t += 1;
            }
            if !found { alive = false; }
        }
        i += 1;
    }
    acc
}

const MAX_T: usize = 6;
static mut TRANS: [Trans; MAX_T] = [
    Trans(0, 0, 0, -1), Trans(0, 0, 0, -1), Trans(0, 0, 0, -1),
    Trans(0, 0, 0, -1), Trans(0, 0, 0, -1), Trans(0, 0, 0, -1),
];

/// Generator contract for exported automata (checked on every generated table by C07's
/// structural leg): sorted by (from, terminal), deterministic, forward edges only (acyclic,
/// state numbers grow along edges), accepting states have no successors, depth <= k.
fn contract(n: usize, nstates: usize, k: usize) -> bool {
    let tr = unsafe { &TRANS };
    let mut i = 0;
    while i < MAX_T {
        if i < n {
            let t = &tr[i];
            if !(t.0 < nstates && t.2 < nstates && t.0 < t.2) { return false; }
            if !(t.3 >= -1 && t.3 < 8) { return false; }
            if !(t.1 == 0 || t.1 >= 5) { return false; }
            if i + 1 < n {
                let u = &tr[i + 1];
                if !(t.0 < u.0 || (t.0 == u.0 && t.1 < u.1)) { return false; }
            }
            // accepting target has no successors
            if t.3 > INVALID_PROD {
                let mut j = 0;
                while j < MAX_T {
                    if j < n && tr[j].0 == t.2 { return false; }
                    j += 1;
                }
            }
        }
        i += 1;
    }
    let _ = k;
    true
}

#[kani::proof]
#[kani::unwind(8)]
#[kani::stub(std::fmt::format, stub_format)]
#[kani::stub(crate::TokenStream::lookahead_token_type, stub_lookahead_token_type)]
#[kani::stub(crate::TokenStream::token_types, stub_token_types)]
pub(crate) fn c08_eval_symbolic_table() {
    symbolic_table_body(MAX_T, 5, 3);
}

/// smaller instance for the quick tier: <= 4 transitions, <= 4 states, k <= 2
#[kani::proof]
#[kani::unwind(8)]
#[kani::stub(std::fmt::format, stub_format)]
#[kani::stub(crate::TokenStream::lookahead_token_type, stub_lookahead_token_type)]
#[kani::stub(crate::TokenStream::token_types, stub_token_types)]
pub(crate) fn c08_eval_symbolic_table_small() {
    symbolic_table_body(4, 4, 2);
}

/// few transitions but full lookahead depth (quick tier): <= 3 transitions, <= 4 states, k <= 3
#[kani::proof]
#[kani::unwind(8)]
#[kani::stub(std::fmt::format, stub_format)]
#[kani::stub(crate::TokenStream::lookahead_token_type, stub_lookahead_token_type)]
#[kani::stub(crate::TokenStream::token_types, stub_token_types)]
pub(crate) fn c08_eval_symbolic_table_k3() {
    symbolic_table_body(3, 4, 3);
}

fn symbolic_table_body(max_n: usize, max_states: usize, max_k: usize) {
    let n: usize = kani::any();
    kani::assume(n <= max_n);
    let nstates: usize = kani::any();
    kani::assume(nstates >= 1 && nstates <= max_states);
    let k: usize = kani::any();
    kani::assume(k <= max_k);
    let mut i = 0;
    while i < MAX_T {
        let t = Trans(kani::any(), kani::any(), kani::any(), kani::any());
        unsafe { TRANS[i] = t; }
        i += 1;
    }
    kani::assume(contract(n, nstates, k));
    let prod0: CompiledProductionIndex = kani::any();
    kani::assume(prod0 >= -1 && prod0 < 8);
    // prod0 valid iff no transitions (single-production non-terminal)
    kani::assume((prod0 > INVALID_PROD) == (n == 0));
    let la: [TerminalIndex; LA_MAX] = kani::any();
    // stream contract: skip tokens (1..=4) are never delivered as lookahead; EOI only as padding
    let mut q = 0;
    while q < LA_MAX {
        kani::assume(la[q] == 0 || la[q] >= 5);
        if q + 1 < LA_MAX { kani::assume(la[q] != 0 || la[q + 1] == 0); }
        q += 1;
    }
    unsafe { LA = la; }
    let trans: &'static [Trans] = unsafe { &TRANS[..n] };
    let dfa = LookaheadDFA::new(prod0, trans, k);
    let stream_k: usize = kani::any();
    kani::assume(stream_k >= 1 && stream_k <= 3 && stream_k >= k);
    let mut ts = empty_stream(stream_k);
    let r = dfa.eval(&mut ts, 0);
    let exp = reference(prod0, trans, k, &la, MAX_T);
    match &r {
        Ok(p) => assert!(exp == Some(*p)),
        Err(_) => assert!(exp.is_none()),
    }
    kani::cover!(r.is_ok() && n == max_n && k == max_k);
    kani::cover!(r.is_err() && n >= 2 && k >= 2);
    core::mem::forget(r);
    core::mem::forget(ts);
}

/// Automata generated by the freshly built parol for the corpus grammars (concrete tables,
/// symbolic automaton index and symbolic lookahead tokens).
fn tables_body(autos: &'static [LookaheadDFA], max_k: usize) {
    // concrete loop over the automata: each iteration sees a concrete table (a symbolic index
    // makes every loop bound of `eval` symbolic and did not finish in 40 min)
    let mut idx = 0;
    let mut any_ok = false;
    let mut any_err = false;
    while idx < autos.len() {
        let dfa = &autos[idx];
        let la: [TerminalIndex; LA_MAX] = kani::any();
        let mut q = 0;
        while q < LA_MAX {
            kani::assume(la[q] == 0 || (la[q] >= 5 && la[q] <= 16));
            if q + 1 < LA_MAX { kani::assume(la[q] != 0 || la[q + 1] == 0); }
            q += 1;
        }
        unsafe { LA = la; }
        let mut ts = empty_stream(max_k);
        let r = dfa.eval(&mut ts, idx);
        let exp = reference(dfa.prod0, dfa.transitions, dfa.k, &la, 24);
        match &r {
            Ok(p) => { assert!(exp == Some(*p)); any_ok = true; }
            Err(_) => { assert!(exp.is_none()); any_err = true; }
        }
        core::mem::forget(r);
        core::mem::forget(ts);
        idx += 1;
    }
    kani::cover!(any_ok);
    kani::cover!(any_err);
}

macro_rules! c08_tables {
    ($($name:ident: $m:ident;)*) => { $(
        #[kani::proof]
        #[kani::unwind(26)]
        #[kani::stub(std::fmt::format, stub_format)]
        #[kani::stub(crate::TokenStream::lookahead_token_type, stub_lookahead_token_type)]
        #[kani::stub(crate::TokenStream::token_types, stub_token_types)]
        pub(crate) fn $name() { tables_body(super::tables::$m::LOOKAHEAD_AUTOMATA, super::tables::$m::MAX_K); }
    )* };
}

c08_tables! {
    c08_tab_anbn: ll_anbn; c08_tab_k2: ll_k2; c08_tab_k3: ll_k3; c08_tab_unite: ll_unite_order;
    c08_tab_nullable: ll_nullable_tail; c08_tab_expr: ll_expr; c08_tab_leftfactor: ll_leftfactor;
    c08_tab_k3_nt: ll_k3_nt; c08_tab_list_k2: ll_list_k2; c08_tab_k3_short: ll_k3_short;
}

/// vacuity twin: must FAIL
#[kani::proof]
#[kani::unwind(8)]
#[kani::stub(std::fmt::format, stub_format)]
#[kani::stub(crate::TokenStream::lookahead_token_type, stub_lookahead_token_type)]
#[kani::stub(crate::TokenStream::token_types, stub_token_types)]
pub(crate) fn c08_twin_must_fail() {
    static T: [Trans; 2] = [Trans(0, 5, 1, 0), Trans(0, 6, 2, 1)];
    let la: [TerminalIndex; LA_MAX] = kani::any();
    unsafe { LA = la; }
    let dfa = LookaheadDFA::new(-1, &T, 1);
    let mut ts = empty_stream(1);
    let r = dfa.eval(&mut ts, 0);
    assert!(r.is_ok());
    core::mem::forget(r);
    core::mem::forget(ts);
}
