//! C31: `Recovery::levenshtein_distance` - the edit script transforms `act` into `exp`, its
//! cost equals the reported distance, and no script is cheaper.
use crate::parser::recovery::{EditOp, Recovery};

/// Runs an edit script over (act, exp); returns Some(cost) iff the script is a valid
/// transformation that ends exactly at both ends.
fn apply<const N: usize>(
    act: &[u16; N], n: usize, exp: &[u16; N], m: usize, ops: &[u8], len: usize, strict_keep: bool,
) -> Option<usize> {
    let (mut i, mut j, mut cost) = (0usize, 0usize, 0usize);
    let mut p = 0;
    while p < 2 * N {
        if p < len {
            match ops[p] {
                0 => {
                    // Keep: both advance, elements must be equal
                    if !(i < n && j < m) { return None; }
                    if strict_keep && act[i] != exp[j] { return None; }
                    i += 1; j += 1;
                }
                1 => { if !(j < m) { return None; } j += 1; cost += 1; }            // Insert
                2 => { if !(i < n) { return None; } i += 1; cost += 1; }            // Delete
                _ => { if !(i < n && j < m) { return None; } i += 1; j += 1; cost += 1; } // Replace
            }
        }
        p += 1;
    }
    if i == n && j == m { Some(cost) } else { None }
}

fn code(op: &EditOp) -> u8 {
    match op { EditOp::Keep => 0, EditOp::Insert => 1, EditOp::Delete => 2, EditOp::Replace => 3 }
}

fn body<const NA: usize, const NE: usize, const N: usize, const L: usize>() {
    // one harness per concrete (|act|, |exp|): a symbolic Vec length makes every allocation
    // size symbolic, which CBMC cannot handle (N=2 ran out of memory); the *contents* are symbolic
    let (n, m) = (NA, NE);
    let act: [u16; N] = kani::any();
    let exp: [u16; N] = kani::any();
    let (d, ops) = Recovery::levenshtein_distance(&act[..n], &exp[..m]);
    // 1. the script is well formed and does what it says
    assert!(ops.len() <= n + m);
    let mut codes = [0u8; L];
    let len = ops.len();
    let mut p = 0;
    while p < L {
        if p < len { codes[p] = code(&ops[p]); }
        p += 1;
    }
    let c = apply::<N>(&act, n, &exp, m, &codes, len, true);
    assert!(c.is_some());          // turns the scanned sequence into the expected one
    assert!(c == Some(d));         // non-keep operations == reported distance
    // 2. minimality: an arbitrary script chosen by the solver is never cheaper
    let alt: [u8; L] = kani::any();
    let alen: usize = kani::any();
    kani::assume(alen <= L);
    let mut q = 0;
    while q < L { kani::assume(alt[q] <= 3); q += 1; }
    if let Some(c2) = apply::<N>(&act, n, &exp, m, &alt, alen, true) {
        assert!(c2 >= d);
    }
    // simple bounds
    assert!(d <= if n > m { n } else { m });
    assert!(d >= if n > m { n - m } else { m - n });
    kani::cover!(d == if n > m { n } else { m });
    kani::cover!(d == if n > m { n - m } else { m - n });
    core::mem::forget(ops);
}

macro_rules! lev {
    ($($name:ident: $na:literal, $ne:literal;)*) => { $(
        #[kani::proof]
        #[kani::unwind(10)]
        pub(crate) fn $name() { body::<$na, $ne, 4, 8>(); }
    )* };
}

lev! {
    c31_lev_0_0: 0, 0; c31_lev_0_1: 0, 1; c31_lev_0_2: 0, 2; c31_lev_0_3: 0, 3; c31_lev_0_4: 0, 4;
    c31_lev_1_0: 1, 0; c31_lev_1_1: 1, 1; c31_lev_1_2: 1, 2; c31_lev_1_3: 1, 3; c31_lev_1_4: 1, 4;
    c31_lev_2_0: 2, 0; c31_lev_2_1: 2, 1; c31_lev_2_2: 2, 2; c31_lev_2_3: 2, 3; c31_lev_2_4: 2, 4;
    c31_lev_3_0: 3, 0; c31_lev_3_1: 3, 1; c31_lev_3_2: 3, 2; c31_lev_3_3: 3, 3; c31_lev_3_4: 3, 4;
    c31_lev_4_0: 4, 0; c31_lev_4_1: 4, 1; c31_lev_4_2: 4, 2; c31_lev_4_3: 4, 3; c31_lev_4_4: 4, 4;
}

/// Native confirmation of a failing (|act|, |exp|) instance (used by the runner through
/// `cargo kani playback`, i.e. ordinary native execution): enumerates every equality pattern of
/// the two sequences (values only matter up to equality), runs the REAL function and checks the
/// same oracle with an independent reference distance.  Returns the first failing input.
pub(crate) fn native_confirm(n: usize, m: usize) -> Option<(Vec<u16>, Vec<u16>, usize, usize, bool)> {
    fn ref_dist(a: &[u16], b: &[u16]) -> usize {
        if a.is_empty() { return b.len(); }
        if b.is_empty() { return a.len(); }
        let sub = ref_dist(&a[1..], &b[1..]) + if a[0] == b[0] { 0 } else { 1 };
        let del = ref_dist(&a[1..], b) + 1;
        let ins = ref_dist(a, &b[1..]) + 1;
        sub.min(del).min(ins)
    }
    let total = n + m;
    let mut vals = vec![1u16; total];
    // all strings over 1..=total (superset of all equality patterns; total <= 8 -> 8^8 at most,
    // pruned to restricted-growth strings)
    fn rec(pos: usize, maxv: u16, vals: &mut Vec<u16>, n: usize, m: usize, out: &mut Option<(Vec<u16>, Vec<u16>, usize, usize, bool)>) {
        if out.is_some() { return; }
        if pos == vals.len() {
            let (act, exp) = vals.split_at(n);
            let (d, ops) = Recovery::levenshtein_distance(act, exp);
            let (mut i, mut j, mut cost, mut ok) = (0usize, 0usize, 0usize, true);
            for op in &ops {
                match op {
                    EditOp::Keep => { if i < n && j < m && act[i] == exp[j] { i += 1; j += 1; } else { ok = false; } }
                    EditOp::Replace => { if i < n && j < m { i += 1; j += 1; cost += 1; } else { ok = false; } }
                    EditOp::Insert => { if j < m { j += 1; cost += 1; } else { ok = false; } }
                    EditOp::Delete => { if i < n { i += 1; cost += 1; } else { ok = false; } }
                }
            }
            ok = ok && i == n && j == m && cost == d;
            let r = ref_dist(act, exp);
            if !ok || d != r {
                *out = Some((act.to_vec(), exp.to_vec(), d, r, ok));
            }
            return;
        }
        let mut v = 1;
        while v <= maxv + 1 && (v as usize) <= vals.len() {
            vals[pos] = v;
            rec(pos + 1, if v > maxv { v } else { maxv }, vals, n, m, out);
            v += 1;
        }
    }
    let mut out = None;
    rec(0, 0, &mut vals, n, m, &mut out);
    out
}

/// vacuity twin: must FAIL
#[kani::proof]
#[kani::unwind(8)]
pub(crate) fn c31_twin_must_fail() {
    let act: [u16; 2] = kani::any();
    let exp: [u16; 2] = kani::any();
    let (d, ops) = Recovery::levenshtein_distance(&act[..2], &exp[..2]);
    core::mem::forget(ops);
    assert!(d == 7);
}
