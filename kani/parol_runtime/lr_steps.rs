//! One-step harnesses over the private state of `LRParser` (child module of
//! crates/parol_runtime/src/lr_parser/parser_types.rs behind cfg(kani)).
//!   call_action   children handed to the semantic action are exactly the |rhs| significant
//!                 entries on top of the tree stack, in order, skip tokens interleaved anywhere are
//!                 kept in the tree node but never passed to the action; one action call; one new
//!                 node pushed; nothing below is touched.
use super::*;

#[path = "/verif/kani/parol_runtime/playback_gen_lr.rs"]
mod playback_gen;

use crate::verif_kani::support::stub_format;
use crate::verif_kani::tables;
use crate::{Location, Token};
use std::path::PathBuf;
use std::sync::Arc;

fn token(fname: &Arc<PathBuf>, tt: u16, idx: u32, state_skip: bool) -> Token<'static> {
    let mut t = Token::with("x", tt, Location { start_line: 1, start_column: idx + 1, end_line: 1, end_column: idx + 2, start: idx, end: idx + 1, file_name: fname.clone() }, idx);
    t.set_state_skip(state_skip);
    t
}

struct CheckActions {
    calls: usize,
    prod: usize,
    nchild: usize,
    order_ok: bool,
    expect_start: [u32; 6],
}
impl<'t> UserActionsTrait<'t> for CheckActions {
    fn call_semantic_action_for_production_number(&mut self, prod_num: usize, children: &[ParseTreeType<'t>]) -> Result<()> {
        self.calls += 1;
        self.prod = prod_num;
        self.nchild = children.len();
        let mut i = 0;
        while i < 6 {
            if i < children.len() {
                match &children[i] {
                    ParseTreeType::T(t) => {
                        if t.location.start != self.expect_start[i] {
                            self.order_ok = false;
                        }
                    }
                    ParseTreeType::N(_) => self.order_ok = false,
                }
            }
            i += 1;
        }
        Ok(())
    }
    fn on_comment(&mut self, _token: Token<'t>) {}
}

/// `skip_kind`: 0 = no interleaved skip tokens, 1 = built-in skip tokens (whitespace/comment),
/// 2 = tokens skipped because of the scanner state's %skip list (state_skip flag)
fn call_action_body(start: usize, table: &'static LRParseTable, prods: &'static [LRProduction], tn: &'static [&'static str], nt: &'static [&'static str], skip_kind: u8, only: usize) {
    let fname = Arc::new(PathBuf::new());
    // one production per harness instance (a loop over all productions ran out of memory)
    let mut pi = only;
    let mut saw_skip = false;
    while pi < prods.len() && pi == only {
        let n = prods[pi].len;
        let mut p = LRParser::new(start, table, prods, tn, nt);
        let trim: bool = kani::any();
        if trim {
            p.trim_parse_tree();
        }
        p.parse_tree_stack.push(LRParseTree::NonTerminal("base", None));
        let mut acts = CheckActions { calls: 0, prod: usize::MAX, nchild: 0, order_ok: true, expect_start: [0; 6] };
        let mut pos = 0u32;
        let mut pushed = 0usize;
        let mut i = 0;
        while i < n {
            let with_skip: bool = kani::any();
            if skip_kind != 0 && with_skip {
                let st = if skip_kind == 1 { token(&fname, 2, pos, false) } else { token(&fname, 7, pos, true) };
                p.parse_tree_stack.push(LRParseTree::Terminal(st));
                pos += 1;
                pushed += 1;
                saw_skip = true;
            }
            // every symbol is represented by a significant terminal (what matters here is order
            // and counting, not the symbol kind)
            p.parse_tree_stack.push(LRParseTree::Terminal(token(&fname, 5, pos, false)));
            acts.expect_start[i] = pos;
            pos += 1;
            pushed += 1;
            i += 1;
        }
        let r = p.call_action(pi, &mut acts);
        match &r {
            Ok(k) => assert!(*k == n),
            Err(_) => assert!(false),
        }
        assert!(acts.calls == 1 && acts.prod == pi && acts.nchild == n && acts.order_ok);
        // base entry + the new node
        assert!(p.parse_tree_stack.len() == 2);
        match p.parse_tree_stack.last() {
            Some(LRParseTree::NonTerminal(name, ch)) => {
                assert!(core::ptr::eq(*name, nt[prods[pi].lhs]));
                match ch {
                    Some(v) => assert!(!trim && v.len() == pushed),   // skip tokens stay in the tree
                    None => assert!(trim),
                }
            }
            _ => assert!(false),
        }
        core::mem::forget(r);
        core::mem::forget(p);
        pi += 1;
    }
    kani::cover!(saw_skip || skip_kind == 0);
}

macro_rules! lr_steps {
    ($($name:ident: $m:ident, $kind:expr, $pi:expr;)*) => { $(
        #[kani::proof]
        #[kani::unwind(10)]
        #[kani::stub(std::fmt::format, stub_format)]
        pub(crate) fn $name() { call_action_body(tables::$m::START, &tables::$m::PARSE_TABLE, tables::$m::PRODUCTIONS, tables::$m::TERMINAL_NAMES, tables::$m::NON_TERMINALS, $kind, $pi); }
    )* };
}

// lr_expr: 0 E0: E; 1 E: E '+' T; 2 E: T; 3 T: T '*' F; 4 T: F; 5 F: "n"; 6 F: '(' E ')'
lr_steps! {
    lr_action_expr_p0: lr_expr, 0, 0; lr_action_expr_p1: lr_expr, 0, 1; lr_action_expr_p5: lr_expr, 0, 5; lr_action_expr_p6: lr_expr, 0, 6;
    lr_action_ws_expr_p1: lr_expr, 1, 1; lr_action_ws_expr_p5: lr_expr, 1, 5; lr_action_ws_expr_p6: lr_expr, 1, 6;
    lr_action_stateskip_expr_p1: lr_expr, 2, 1; lr_action_stateskip_expr_p5: lr_expr, 2, 5; lr_action_stateskip_expr_p6: lr_expr, 2, 6;
    lr_action_nullable_p0: lr_nullable_start, 0, 0; lr_action_nullable_p1: lr_nullable_start, 0, 1; lr_action_nullable_p2: lr_nullable_start, 0, 2;
    lr_action_ws_nullable_p1: lr_nullable_start, 1, 1; lr_action_stateskip_nullable_p1: lr_nullable_start, 2, 1;
}

/// vacuity twin: must FAIL
#[kani::proof]
#[kani::unwind(10)]
#[kani::stub(std::fmt::format, stub_format)]
pub(crate) fn lr_steps_twin_must_fail() {
    let fname = Arc::new(PathBuf::new());
    let mut p = LRParser::new(tables::lr_expr::START, &tables::lr_expr::PARSE_TABLE, tables::lr_expr::PRODUCTIONS, tables::lr_expr::TERMINAL_NAMES, tables::lr_expr::NON_TERMINALS);
    p.parse_tree_stack.push(LRParseTree::Terminal(token(&fname, 5, 0, false)));
    let mut acts = CheckActions { calls: 0, prod: usize::MAX, nchild: 0, order_ok: true, expect_start: [0; 6] };
    let r = p.call_action(0, &mut acts);
    assert!(acts.calls == 0);
    core::mem::forget(r);
    core::mem::forget(p);
}
