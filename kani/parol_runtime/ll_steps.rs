//! One-step harnesses over the private state of `LLKParser` (included as a child module of
//! crates/parol_runtime/src/parser/parser_types.rs behind cfg(kani)).
//!
//! Whole parse runs are out of CBMC's reach (a^n b^n with N <= 2 tokens, recovery off, trimmed
//! tree: > 45 min, 9 GB, no result), so the mechanisms that C02/C14/C17/C19/C20 rest on are
//! decided one step at a time from a state built directly:
//!   push_production      stack effect, tree open, depth accounting, depth-limit error
//!   process_item_stack   children = last |rhs| entries in order, one action call (none in
//!                        recovery mode), tree close unless trimmed
//!   handle_additional_tokens   leading skip tokens of a REAL TokenBuffer go to the tree once, in
//!                        order, comments to on_comment once, nothing else is touched
//!   add_error            duplicate location => RecoveryFailed; list never exceeds 101 entries
use super::*;

#[path = "/verif/kani/parol_runtime/playback_gen_ll.rs"]
mod playback_gen;

use crate::lexer::token::INVALID_TOKEN;
use crate::verif_kani::ll_core::{RecActions, RecTree};
use crate::verif_kani::support::{empty_stream, stub_format};
use crate::verif_kani::tables;
use crate::{Location, Token};
use std::path::PathBuf;
use std::sync::Arc;

fn same(a: &ParseType, b: &ParseType) -> bool {
    match (a, b) {
        (ParseType::N(x), ParseType::N(y)) => x == y,
        (ParseType::T(x), ParseType::T(y)) => x == y,
        (ParseType::E(x), ParseType::E(y)) => x == y,
        _ => false,
    }
}

fn push_body(start: usize, la: &'static [LookaheadDFA], prods: &'static [Production], tn: &'static [&'static str], nt: &'static [&'static str]) {
    let mut pi = 0;
    let mut limited = false;
    while pi < prods.len() {
        let mut p = LLKParser::new(start, la, prods, tn, nt);
        let depth0: usize = kani::any();
        kani::assume(depth0 < 1000);
        p.production_depth = depth0;
        let has_limit: bool = kani::any();
        let limit: usize = kani::any();
        kani::assume(limit < 1000);
        if has_limit {
            p.set_max_parsing_depth(limit);
        }
        let trim: bool = kani::any();
        if trim {
            p.trim_parse_tree();
        }
        p.parser_stack.stack.push(ParseType::T(5));
        let mut tree = RecTree::new();
        let r = p.push_production(&mut tree, pi);
        let rhs = prods[pi].production;
        // stack effect: end-of-production marker, then the stored (reversed) right-hand side
        assert!(p.parser_stack.stack.len() == 2 + rhs.len());
        assert!(same(&p.parser_stack.stack[1], &ParseType::E(pi)));
        let mut i = 0;
        while i < rhs.len() {
            assert!(same(&p.parser_stack.stack[2 + i], &rhs[i]));
            i += 1;
        }
        // one node opened unless trimmed; production entry on the parse tree stack
        assert!(tree.opens == if trim { 0 } else { 1 });
        assert!(p.parse_tree_stack.len() == 1);
        match p.parse_tree_stack.last() {
            Some(ParseTreeType::N(n)) => assert!(core::ptr::eq(*n, nt[prods[pi].lhs])),
            _ => assert!(false),
        }
        // depth accounting skips push productions; the limit error appears exactly when exceeded
        let d1 = if prods[pi].is_push_production { depth0 } else { depth0 + 1 };
        assert!(p.production_depth == d1);
        if has_limit && d1 > limit {
            limited = true;
            match &r {
                Err(ParolError::ParserError(ParserError::MaxParsingDepthExceeded { depth })) => assert!(*depth == d1),
                _ => assert!(false),
            }
        } else {
            assert!(r.is_ok());
        }
        core::mem::forget(r);
        core::mem::forget(p);
        pi += 1;
    }
    kani::cover!(limited);
}

fn token(fname: &Arc<PathBuf>, tt: u16, idx: u32) -> Token<'static> {
    Token::with("x", tt, Location { start_line: 1, start_column: idx + 1, end_line: 1, end_column: idx + 2, start: idx, end: idx + 1, file_name: fname.clone() }, idx)
}

struct CheckActions {
    calls: usize,
    prod: usize,
    nchild: usize,
    kinds_ok: bool,
    expect: [u16; 8],      // expected token types of T children (0 for N children)
    expect_n: [bool; 8],
}
impl<'t> UserActionsTrait<'t> for CheckActions {
    fn call_semantic_action_for_production_number(&mut self, prod_num: usize, children: &[ParseTreeType<'t>]) -> Result<()> {
        self.calls += 1;
        self.prod = prod_num;
        self.nchild = children.len();
        let mut i = 0;
        while i < 8 {
            if i < children.len() {
                match &children[i] {
                    ParseTreeType::T(t) => {
                        if self.expect_n[i] || t.token_type != self.expect[i] {
                            self.kinds_ok = false;
                        }
                    }
                    ParseTreeType::N(_) => {
                        if !self.expect_n[i] {
                            self.kinds_ok = false;
                        }
                    }
                }
            }
            i += 1;
        }
        Ok(())
    }
    fn on_comment(&mut self, _token: Token<'t>) {}
}

fn process_body(start: usize, la: &'static [LookaheadDFA], prods: &'static [Production], tn: &'static [&'static str], nt: &'static [&'static str]) {
    let fname = Arc::new(PathBuf::new());
    // ONE parser object completes all productions one after the other (as parse_into does), so
    // state that the implementation carries from one completed production to the next is part
    // of the pre-state of every later step; options are symbolic, chosen once
    let mut p = LLKParser::new(start, la, prods, tn, nt);
    let trim: bool = kani::any();
    if trim {
        p.trim_parse_tree();
    }
    let recovering: bool = kani::any();
    if recovering {
        p.error_entries.push(SyntaxError::default());
    }
    // pre-state: an unrelated entry below, then per step the entries of the right-hand side in
    // grammar order (what the loop pushes while it consumes them)
    p.parse_tree_stack.push(ParseTreeType::N(nt[0]));
    let mut pi = 0;
    while pi < prods.len() {
        let rhs = prods[pi].production; // stored reversed
        let l = rhs.len();
        let mut acts = CheckActions { calls: 0, prod: usize::MAX, nchild: 0, kinds_ok: true, expect: [0; 8], expect_n: [false; 8] };
        let mut i = 0;
        while i < l {
            match rhs[l - 1 - i] {
                ParseType::T(t) => {
                    p.parse_tree_stack.push(ParseTreeType::T(token(&fname, t, i as u32)));
                    acts.expect[i] = t;
                }
                ParseType::N(n) => {
                    p.parse_tree_stack.push(ParseTreeType::N(nt[n]));
                    acts.expect_n[i] = true;
                }
                ParseType::E(_) => {}
            }
            i += 1;
        }
        let mut tree = RecTree::new();
        tree.depth = 1;
        let r = p.process_item_stack(&mut tree, pi, &mut acts);
        assert!(r.is_ok());
        // exactly the |rhs| top entries were taken, the entry below is untouched
        assert!(p.parse_tree_stack.len() == 1);
        if recovering {
            assert!(acts.calls == 0);
        } else {
            assert!(acts.calls == 1 && acts.prod == pi && acts.nchild == l && acts.kinds_ok);
        }
        assert!(tree.closes == if trim { 0 } else { 1 });
        core::mem::forget(r);
        pi += 1;
    }
    core::mem::forget(p);
}

macro_rules! ll_steps {
    ($($push:ident, $proc:ident: $m:ident;)*) => { $(
        #[kani::proof]
        #[kani::unwind(14)]
        #[kani::stub(std::fmt::format, stub_format)]
        pub(crate) fn $push() { push_body(tables::$m::START, tables::$m::LOOKAHEAD_AUTOMATA, tables::$m::PRODUCTIONS, tables::$m::TERMINAL_NAMES, tables::$m::NON_TERMINALS); }
        #[kani::proof]
        #[kani::unwind(14)]
        #[kani::stub(std::fmt::format, stub_format)]
        pub(crate) fn $proc() { process_body(tables::$m::START, tables::$m::LOOKAHEAD_AUTOMATA, tables::$m::PRODUCTIONS, tables::$m::TERMINAL_NAMES, tables::$m::NON_TERMINALS); }
    )* };
}

ll_steps! {
    ll_push_anbn, ll_process_anbn: ll_anbn;
    ll_push_expr, ll_process_expr: ll_expr;
    ll_push_k3_nt, ll_process_k3_nt: ll_k3_nt;
    ll_push_list_k2, ll_process_list_k2: ll_list_k2;
    ll_push_nullable, ll_process_nullable: ll_nullable_tail;
}

/// add_error: an error that has been reported is RECORDED (the parser stays in recovery mode, so
/// `parse_into` cannot return Ok afterwards) - with recovery enabled or disabled; a repeated
/// location ends recovery with an error but never clears the record.
/// One harness per number of previous errors (a symbolic Vec length ran out of memory).
fn add_error_body(prev: usize) {
    let fname = Arc::new(PathBuf::new());
    let mut p = LLKParser::new(tables::ll_anbn::START, tables::ll_anbn::LOOKAHEAD_AUTOMATA, tables::ll_anbn::PRODUCTIONS, tables::ll_anbn::TERMINAL_NAMES, tables::ll_anbn::NON_TERMINALS);
    let no_recovery: bool = kani::any();
    if no_recovery {
        p.disable_recovery();
    }
    let s0: u32 = kani::any();
    let s1: u32 = kani::any();
    kani::assume(s0 < 1000 && s1 < 1000);
    if prev == 1 {
        p.error_entries.push(SyntaxError::default().with_location(Location { start: s0, end: s0 + 1, file_name: fname.clone(), ..Location::default() }));
    }
    let r = p.add_error(SyntaxError::default().with_location(Location { start: s1, end: s1 + 1, file_name: fname.clone(), ..Location::default() }));
    // whatever it returns, the parser now knows that an error happened
    assert!(p.is_in_recovery_mode());
    assert!(p.error_entries.len() >= 1);
    let dup = prev == 1 && s0 == s1;
    if dup {
        assert!(r.is_err() && p.error_entries.len() == 1);
    } else {
        assert!(p.error_entries.len() == prev + 1);
    }
    kani::cover!(dup || prev == 0);
    kani::cover!(no_recovery);
    core::mem::forget(r);
    core::mem::forget(p);
}

#[kani::proof]
#[kani::unwind(6)]
#[kani::stub(std::fmt::format, stub_format)]
pub(crate) fn ll_add_error_first() {
    add_error_body(0);
}

#[kani::proof]
#[kani::unwind(6)]
#[kani::stub(std::fmt::format, stub_format)]
pub(crate) fn ll_add_error_second() {
    add_error_body(1);
}

/// vacuity twin: must FAIL
#[kani::proof]
#[kani::unwind(14)]
#[kani::stub(std::fmt::format, stub_format)]
pub(crate) fn ll_steps_twin_must_fail() {
    let mut p = LLKParser::new(tables::ll_anbn::START, tables::ll_anbn::LOOKAHEAD_AUTOMATA, tables::ll_anbn::PRODUCTIONS, tables::ll_anbn::TERMINAL_NAMES, tables::ll_anbn::NON_TERMINALS);
    let mut tree = RecTree::new();
    let r = p.push_production(&mut tree, 0);
    assert!(p.parser_stack.stack.len() == 1);
    core::mem::forget(r);
    core::mem::forget(p);
}
