//! Shared harness support: fmt stub, scanner instance, stream construction.
use crate::{LexerError, TerminalIndex, TokenIter, TokenStream};
use scnr2::scanner;
use std::cell::RefCell;
use std::path::PathBuf;
use std::rc::Rc;
use std::sync::Arc;

/// Stub for `alloc::fmt::format`: diagnostic text is never the subject of a harness.
pub(crate) fn stub_format(_args: core::fmt::Arguments<'_>) -> std::string::String {
    std::string::String::new()
}

scanner!(
    VerifScanner {
        mode INITIAL {
            token r"a" => 5;
            token r"." => 6;
        }
    }
);

pub(crate) use verif_scanner::VerifScanner;

pub(crate) type MatchFn = fn(char) -> Option<usize>;

/// A token stream whose buffer is empty and whose iterator is never advanced by the harnesses
/// that stub the stream's read API.
pub(crate) fn empty_stream(k: usize) -> TokenStream<'static, MatchFn> {
    let scanner = VerifScanner::new();
    static MF: MatchFn = VerifScanner::match_function;
    let file_name = Arc::new(PathBuf::new());
    let iter = TokenIter::new(
        scnr2::ScannerImpl::find_matches_with_position(scanner.scanner_impl.clone(), "", 0, &MF),
        "",
        file_name.clone(),
        k,
    );
    TokenStream::verif_from_parts("", file_name, iter, k, &[])
}
