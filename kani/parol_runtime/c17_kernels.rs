//! C17 / C02 kernels that CBMC can decide quickly:
//!  * skip classification of tokens is consistent across the places that use it
//!    (Token::is_skip_token / is_effectively_skip_token / is_comment_token,
//!    LRParseTree::is_skip_token) for every token type and state_skip flag;
//!  * `ParseTreeStack::pop_n` (the routine LR reductions use to take |rhs| significant entries
//!    plus interleaved skipped entries) - instantiated at a small element type (one harness per
//!    concrete instantiation: T = Flag) - returns the shortest suffix that contains n counted
//!    entries, in order, and leaves the rest untouched;
//!  * `ParseTreeStack::split_off` (LL) returns exactly the entries from `at` in order.
use crate::lexer::token::INVALID_TOKEN;
use crate::lr_parser::LRParseTree;
use crate::parser_common::ParseTreeStack;
use crate::{Location, TerminalIndex, Token};
use std::fmt::{Display, Formatter};
use std::path::PathBuf;
use std::sync::Arc;

#[kani::proof]
#[kani::unwind(4)]
pub(crate) fn c17_skip_classification() {
    let tt: TerminalIndex = kani::any();
    let ss: bool = kani::any();
    let fname = Arc::new(PathBuf::new());
    let mut t = Token::with("x", tt, Location { start: 0, end: 1, file_name: fname.clone(), ..Location::default() }, 0);
    t.set_state_skip(ss);
    let builtin = (tt >= 1 && tt <= 4) || tt == INVALID_TOKEN;
    assert!(t.is_skip_token() == builtin);
    assert!(t.is_effectively_skip_token() == (builtin || ss));
    assert!(t.is_comment_token() == (tt == 3 || tt == 4));
    // comments are always skipped; EOI never is unless listed
    if t.is_comment_token() {
        assert!(t.is_effectively_skip_token());
    }
    // the LR tree stack classifies exactly like the token buffer does
    let eff = t.is_effectively_skip_token();
    let node = LRParseTree::Terminal(t);
    assert!(node.is_skip_token() == eff);
    let nt = LRParseTree::NonTerminal("N", None);
    assert!(!nt.is_skip_token());
    kani::cover!(ss && !builtin && tt >= 5);
    kani::cover!(tt == INVALID_TOKEN);
    core::mem::forget(node);
    core::mem::forget(nt);
}

#[derive(Clone, Copy, PartialEq)]
struct Flag {
    id: u8,
    counted: bool,
}
impl Display for Flag {
    fn fmt(&self, _f: &mut Formatter<'_>) -> std::fmt::Result {
        Ok(())
    }
}

const MAXS: usize = 6;

fn pop_n_body(len: usize) {
    let mut st: ParseTreeStack<Flag> = ParseTreeStack::new();
    let flags: [bool; MAXS] = kani::any();
    let mut i = 0;
    while i < len {
        st.push(Flag { id: i as u8, counted: flags[i] });
        i += 1;
    }
    let n: usize = kani::any();
    kani::assume(n <= MAXS);
    let out = st.pop_n(n, |f| f.counted);
    // reference: walk from the top until n counted entries were seen (or the stack is exhausted)
    let mut take = 0;
    let mut seen = 0;
    while take < len && seen < n {
        if flags[len - 1 - take] {
            seen += 1;
        }
        take += 1;
    }
    assert!(out.len() == take);
    assert!(st.len() == len - take);
    let mut j = 0;
    while j < MAXS {
        if j < take {
            // order preserved: the popped entries are the top `take` entries bottom-to-top
            assert!(out[j].id as usize == len - take + j);
        }
        if j < len - take {
            assert!(st.stack[j].id as usize == j);
        }
        j += 1;
    }
    // exactly min(n, number of counted entries) counted entries are among the popped ones
    let mut c = 0;
    let mut q = 0;
    while q < MAXS {
        if q < take && out[q].counted {
            c += 1;
        }
        q += 1;
    }
    assert!(c == seen && seen <= n);
    if seen == n && n > 0 {
        // shortest such suffix: its first entry is a counted one
        assert!(out[0].counted);
    }
    kani::cover!(take == len || (seen == n && take > n));
    core::mem::forget(out);
    core::mem::forget(st);
}

macro_rules! pop_n {
    ($($name:ident: $len:expr;)*) => { $(
        #[kani::proof]
        #[kani::unwind(9)]
        pub(crate) fn $name() { pop_n_body($len); }
    )* };
}
pop_n! { c17_pop_n_len0: 0; c17_pop_n_len1: 1; c17_pop_n_len2: 2; c17_pop_n_len3: 3; c17_pop_n_len4: 4; c17_pop_n_len5: 5; c17_pop_n_len6: 6; }

fn split_off_body(len: usize) {
    let mut st: ParseTreeStack<Flag> = ParseTreeStack::new();
    let mut i = 0;
    while i < len {
        st.push(Flag { id: i as u8, counted: true });
        i += 1;
    }
    let l: usize = kani::any();
    kani::assume(l <= len);
    let out = st.split_off(len - l);
    assert!(out.len() == l && st.len() == len - l);
    let mut j = 0;
    while j < MAXS {
        if j < l {
            assert!(out[j].id as usize == len - l + j);
        }
        j += 1;
    }
    kani::cover!(l == len);
    core::mem::forget(out);
    core::mem::forget(st);
}

#[kani::proof]
#[kani::unwind(9)]
pub(crate) fn c02_split_off_len4() {
    split_off_body(4);
}

#[kani::proof]
#[kani::unwind(9)]
pub(crate) fn c02_split_off_len6() {
    split_off_body(6);
}

/// `TokenStream::is_state_skip_token` (through the cfg(kani) forwarder): a token type is flagged
/// in a scanner state exactly when that state's skip list contains it - whatever the order of
/// the list, for states with and without a list.
static mut SKIP0: [TerminalIndex; 3] = [0; 3];
static mut SKIP1: [TerminalIndex; 3] = [0; 3];
static mut SKIP_LISTS: [&'static [TerminalIndex]; 2] = [&[], &[]];

#[kani::proof]
#[kani::unwind(6)]
pub(crate) fn c17_state_skip_lookup() {
    use crate::verif_kani::support::{MatchFn, VerifScanner};
    let l0: [TerminalIndex; 3] = kani::any();
    let l1: [TerminalIndex; 3] = kani::any();
    let n0: usize = kani::any();
    let n1: usize = kani::any();
    kani::assume(n0 <= 3 && n1 <= 3);
    let lists: &'static [&'static [TerminalIndex]] = unsafe {
        SKIP0 = l0;
        SKIP1 = l1;
        SKIP_LISTS[0] = &SKIP0[..n0];
        SKIP_LISTS[1] = &SKIP1[..n1];
        &SKIP_LISTS
    };
    let scanner = VerifScanner::new();
    static MF: MatchFn = VerifScanner::match_function;
    let file_name = Arc::new(PathBuf::new());
    let iter = crate::TokenIter::new(scnr2::ScannerImpl::find_matches_with_position(scanner.scanner_impl.clone(), "", 0, &MF), "", file_name.clone(), 1);
    let ts = crate::TokenStream::verif_from_parts("", file_name, iter, 1, lists);
    let tt: TerminalIndex = kani::any();
    let state: usize = kani::any();
    kani::assume(state <= 2);
    let got = ts.verif_is_state_skip_token(tt, state);
    let mut exp = false;
    let mut i = 0;
    while i < 3 {
        if state == 0 && i < n0 && l0[i] == tt { exp = true; }
        if state == 1 && i < n1 && l1[i] == tt { exp = true; }
        i += 1;
    }
    assert!(got == exp);
    kani::cover!(got && state == 1 && n1 == 3 && l1[0] > l1[1]);
    kani::cover!(!got && state == 2);
    core::mem::forget(ts);
}

/// vacuity twin: must FAIL
#[kani::proof]
#[kani::unwind(9)]
pub(crate) fn c17_kernels_twin_must_fail() {
    let mut st: ParseTreeStack<Flag> = ParseTreeStack::new();
    st.push(Flag { id: 0, counted: true });
    let out = st.pop_n(1, |f| f.counted);
    assert!(out.len() == 0);
    core::mem::forget(out);
    core::mem::forget(st);
}
