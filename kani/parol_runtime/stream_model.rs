//! Cursor model of the `TokenStream` read/consume/edit API used by both parser loops
//! (stated assumption of the parser-core harnesses; the real buffer is the subject of C14/C17).
//!
//! The model is an array of token types padded with EOI and a read position. `lookahead(n)`
//! returns the token at position POS+n for n < k, `consume` advances. Every token carries a
//! distinct location (start = index) and the shared file name.
use crate::lexer::EOI;
use crate::{LexerError, Location, TerminalIndex, Token, TokenNumber, TokenStream};
use std::borrow::Cow;
use std::path::PathBuf;
use std::sync::Arc;

pub(crate) const CAP: usize = 12;
pub(crate) static mut TOKS: [TerminalIndex; CAP] = [0; CAP];
pub(crate) static mut POS: usize = 0;
/// number of skip tokens to deliver before the token at each position (C17 variants)
pub(crate) static mut SKIPS: [u8; CAP] = [0; CAP];
pub(crate) static mut SKIP_TYPE: [TerminalIndex; CAP] = [0; CAP];
pub(crate) static mut FNAME: Option<Arc<PathBuf>> = None;
pub(crate) static mut CONSUMED: usize = 0;

pub(crate) fn init(toks: &[TerminalIndex]) {
    unsafe {
        let mut i = 0;
        while i < CAP {
            TOKS[i] = if i < toks.len() { toks[i] } else { EOI };
            SKIPS[i] = 0;
            i += 1;
        }
        POS = 0;
        CONSUMED = 0;
        if FNAME.is_none() {
            FNAME = Some(Arc::new(PathBuf::new()));
        }
    }
}

pub(crate) fn token_at<'t>(idx: usize) -> Token<'t> {
    let tt = unsafe { if idx < CAP { TOKS[idx] } else { EOI } };
    Token {
        text: Cow::Borrowed("t"),
        token_type: tt,
        location: Location {
            start_line: 1,
            start_column: idx as u32 + 1,
            end_line: 1,
            end_column: idx as u32 + 2,
            start: idx as u32,
            end: idx as u32 + 1,
            file_name: unsafe { FNAME.as_ref().unwrap().clone() },
        },
        token_number: idx as TokenNumber,
        state_skip: false,
    }
}

pub(crate) fn m_lookahead<'t, F>(ts: &mut TokenStream<'t, F>, n: usize) -> Result<Token<'t>, LexerError>
where
    F: Fn(char) -> Option<usize> + 'static + Clone,
    't: 't,
{
    if n >= ts.k {
        Err(LexerError::LookaheadExceedsMaximum)
    } else {
        Ok(token_at(unsafe { POS } + n))
    }
}

pub(crate) fn m_lookahead_token_type<'t, F>(ts: &mut TokenStream<'t, F>, n: usize) -> Result<TerminalIndex, LexerError>
where
    F: Fn(char) -> Option<usize> + 'static + Clone,
    't: 't,
{
    if n >= ts.k {
        Err(LexerError::LookaheadExceedsMaximum)
    } else {
        let i = unsafe { POS } + n;
        Ok(unsafe { if i < CAP { TOKS[i] } else { EOI } })
    }
}

pub(crate) fn m_take_skip_tokens<'t, F>(_ts: &mut TokenStream<'t, F>) -> Vec<Token<'t>>
where
    F: Fn(char) -> Option<usize> + 'static + Clone,
    't: 't,
{
    Vec::new()
}

pub(crate) fn m_consume<'t, F>(_ts: &mut TokenStream<'t, F>) -> Result<Token<'t>, LexerError>
where
    F: Fn(char) -> Option<usize> + 'static + Clone,
    't: 't,
{
    let p = unsafe { POS };
    let t = token_at(p);
    unsafe {
        POS = p + 1;
        CONSUMED += 1;
    }
    Ok(t)
}

pub(crate) fn m_all_input_consumed<'t, F>(_ts: &TokenStream<'t, F>) -> bool
where
    F: Fn(char) -> Option<usize> + 'static + Clone,
    't: 't,
{
    unsafe { POS >= CAP || TOKS[POS] == EOI }
}

pub(crate) fn m_ensure_buffer<'t, F>(_ts: &mut TokenStream<'t, F>) -> Result<usize, LexerError>
where
    F: Fn(char) -> Option<usize> + 'static + Clone,
    't: 't,
{
    Ok(0)
}

pub(crate) fn m_current_scanner<'a, 't, F>(_ts: &'a TokenStream<'t, F>) -> &'a str
where
    F: Fn(char) -> Option<usize> + 'static + Clone,
    't: 't,
{
    "INITIAL"
}

pub(crate) fn m_stream_diag<'t, F>(_ts: &TokenStream<'t, F>) -> String
where
    F: Fn(char) -> Option<usize> + 'static + Clone,
    't: 't,
{
    String::new()
}

pub(crate) fn m_token_types<'t, F>(ts: &TokenStream<'t, F>) -> Vec<TerminalIndex>
where
    F: Fn(char) -> Option<usize> + 'static + Clone,
    't: 't,
{
    let mut v = Vec::new();
    let mut i = 0;
    while i < 3 {
        if i < ts.k {
            let p = unsafe { POS } + i;
            v.push(unsafe { if p < CAP { TOKS[p] } else { EOI } });
        }
        i += 1;
    }
    v
}
