//! In-crate Kani harnesses for `parol-ls` (engine K): position/offset kernel (C30).
#![allow(dead_code, unused_imports, clippy::all)]

mod playback_gen;

use crate::rng::Rng;
use crate::utils::{extract_text_range, pos_to_offset};
use lsp_types::{Position, Range};

/// Reference: byte offset of (line, character) computed by a plain byte scan; positions past the
/// end of a line clamp to the end of that line (before its line break), lines past the end of the
/// text clamp to the end of the text.
fn reference(text: &str, line: u32, character: u32) -> usize {
    let b = text.as_bytes();
    let n = b.len();
    let mut off = 0usize;
    let mut l = 0u32;
    // advance to the start of the requested line
    while l < line && off < n {
        // find end of current line
        while off < n && b[off] != b'\n' {
            off += 1;
        }
        if off < n {
            off += 1; // consume '\n'
            l += 1;
        }
    }
    if l < line {
        return n;
    }
    // walk `character` chars, stopping at the line break
    let mut c = 0u32;
    while c < character && off < n {
        if b[off] == b'\n' || (b[off] == b'\r' && off + 1 < n && b[off + 1] == b'\n') {
            break;
        }
        // advance one UTF-8 scalar
        off += 1;
        while off < n && (b[off] & 0xC0) == 0x80 {
            off += 1;
        }
        c += 1;
    }
    off
}

/// One harness per (template, line): the line is concrete (a symbolic line drives `str::lines`
/// through `take`/`nth` symbolically: 6 GB and minutes per template), the character is symbolic.
fn check_pos(text: &'static str, line: u32, max_char: u32) {
    let character: u32 = kani::any();
    kani::assume(character <= max_char);
    let off = pos_to_offset(text, Position { line, character });
    // stays within the text, on a character boundary
    assert!(off <= text.len());
    assert!(text.is_char_boundary(off));
    // positions inside the text map to the byte offset of that character; others clamp
    assert!(off == reference(text, line, character));
    kani::cover!(character == max_char);
    kani::cover!(character == 0);
}

/// Ranges: both lines concrete, both characters symbolic, start <= end in document order.
fn check_range(text: &'static str, line: u32, line2: u32, max_char: u32) {
    let character: u32 = kani::any();
    let character2: u32 = kani::any();
    kani::assume(character <= max_char && character2 <= max_char);
    kani::assume(line2 > line || character2 >= character);
    let off = pos_to_offset(text, Position { line, character });
    let off2 = pos_to_offset(text, Position { line: line2, character: character2 });
    assert!(off2 >= off);
    let r = Rng::new(Range { start: Position { line, character }, end: Position { line: line2, character: character2 } });
    let s = extract_text_range(text, r);
    assert!(s.len() == off2 - off);
    kani::cover!(character == max_char && character2 == max_char);
}

macro_rules! pos {
    ($($name:ident: $text:expr, $line:expr, $mc:expr;)*) => { $(
        #[kani::proof]
        #[kani::unwind(10)]
        pub(crate) fn $name() { check_pos($text, $line, $mc); }
    )* };
}
macro_rules! rng {
    ($($name:ident: $text:expr, $l1:expr, $l2:expr, $mc:expr;)*) => { $(
        #[kani::proof]
        #[kani::unwind(10)]
        pub(crate) fn $name() { check_range($text, $l1, $l2, $mc); }
    )* };
}

const T_ASCII: &str = "ab";
const T_MBEND: &str = "a\u{e9}";
const T_LF: &str = "a\nb";
const T_CRLF: &str = "a\r\nb";
const T_TRAIL: &str = "ab\n";
const T_EMPTYL: &str = "\n\na";
const T_3BYTE: &str = "\u{20ac}\nx";
const T_BARECR: &str = "a\rb";
const T_EMPTY: &str = "";
const T_MBMID: &str = "\u{e9}a\n";

pos! {
    c30_ascii_l0: T_ASCII, 0, 3; c30_ascii_l1: T_ASCII, 1, 3; c30_ascii_l2: T_ASCII, 2, 3;
    c30_mbend_l0: T_MBEND, 0, 3; c30_mbend_l1: T_MBEND, 1, 3;
    c30_lf_l0: T_LF, 0, 2; c30_lf_l1: T_LF, 1, 2; c30_lf_l2: T_LF, 2, 2;
    c30_crlf_l0: T_CRLF, 0, 3; c30_crlf_l1: T_CRLF, 1, 3; c30_crlf_l2: T_CRLF, 2, 3;
    c30_trail_l0: T_TRAIL, 0, 3; c30_trail_l1: T_TRAIL, 1, 3; c30_trail_l2: T_TRAIL, 2, 3;
    c30_emptyl_l0: T_EMPTYL, 0, 2; c30_emptyl_l1: T_EMPTYL, 1, 2; c30_emptyl_l2: T_EMPTYL, 2, 2; c30_emptyl_l3: T_EMPTYL, 3, 2;
    c30_3byte_l0: T_3BYTE, 0, 2; c30_3byte_l1: T_3BYTE, 1, 2; c30_3byte_l2: T_3BYTE, 2, 2;
    c30_barecr_l0: T_BARECR, 0, 4; c30_barecr_l1: T_BARECR, 1, 4;
    c30_empty_l0: T_EMPTY, 0, 2; c30_empty_l1: T_EMPTY, 1, 2;
    c30_mbmid_l0: T_MBMID, 0, 3; c30_mbmid_l1: T_MBMID, 1, 3; c30_mbmid_l2: T_MBMID, 2, 3;
}

rng! {
    c30_rng_mbend_0_0: T_MBEND, 0, 0, 3; c30_rng_mbend_0_1: T_MBEND, 0, 1, 3;
    c30_rng_crlf_0_1: T_CRLF, 0, 1, 3; c30_rng_crlf_1_2: T_CRLF, 1, 2, 3;
    c30_rng_trail_0_2: T_TRAIL, 0, 2, 3; c30_rng_3byte_0_1: T_3BYTE, 0, 1, 2;
}

/// vacuity twin: must FAIL
#[kani::proof]
#[kani::unwind(10)]
pub(crate) fn c30_twin_must_fail() {
    let character: u32 = kani::any();
    kani::assume(character <= 3);
    let off = pos_to_offset("ab", Position { line: 0, character });
    assert!(off == 0);
}
