#!/bin/bash
# Offline setup: warm the build caches that the checks use (every check still rebuilds
# incrementally from /repo's current working tree).
set -e
cd /verif
export CARGO_NET_OFFLINE=true
mkdir -p build evidence
( cd /repo && CARGO_TARGET_DIR=/verif/build/target cargo build --offline -p parol 2>&1 | tail -2 )
echo "setup done"
