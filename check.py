#!/usr/bin/env python3
"""Entry point: ./check <property id> [--tier quick|thorough] [--replay <file>]"""
import sys, os, importlib, argparse, traceback
sys.path.insert(0, "/verif")


def main():
    ap = argparse.ArgumentParser()
    ap.add_argument("prop")
    ap.add_argument("--tier", default=os.environ.get("VERIF_TIER", "quick"))
    ap.add_argument("--replay", default=None)
    a = ap.parse_args()
    os.environ["VERIF_TIER"] = a.tier
    # watchdog: a check that does not end by itself is inconclusive, never silent
    import signal
    limit = int(os.environ.get("VERIF_WATCHDOG_S", "3000" if a.tier == "quick" else "14400"))

    def _alarm(signum, frame):
        print("INCONCLUSIVE %s: watchdog - the check did not finish within %d s" % (a.prop, limit), flush=True)
        os._exit(2)
    signal.signal(signal.SIGALRM, _alarm)
    signal.alarm(limit)
    try:
        mod = importlib.import_module("checks." + a.prop.lower())
    except ModuleNotFoundError:
        print("no check for property %s (see MANIFEST.json not_applicable)" % a.prop)
        return 2
    try:
        if a.replay:
            return mod.replay(a.replay)
        return (mod.check_main if hasattr(mod, 'check_main') else mod.main)()
    except Exception:
        traceback.print_exc()
        print("INCONCLUSIVE %s: check machinery raised an exception" % a.prop)
        return 2


if __name__ == "__main__":
    sys.exit(main())
