"""Engine R: translation of the regular expressions emitted by the real parol generator (Rust
regex syntax as accepted by scnr2: literals, escapes, classes incl. negation/ranges/`--`
difference, groups, | * + ?, `.`) into z3 regular-language terms.

Exact for the constructs parol itself emits (comment patterns, NEW_LINE/WHITESPACE/ERROR tokens,
escaped literals).  `\\w`, `\\d` and `\\b` are only approximated (ASCII) / unsupported and are
flagged through `Rx.approx`; results that depend on them are used only to propose lexemes that
are validated natively.
"""
import z3

SS = z3.StringSort()
RS = z3.ReSort(SS)

WHITE = [(0x09, 0x0D), (0x20, 0x20), (0x85, 0x85), (0xA0, 0xA0), (0x1680, 0x1680), (0x2000, 0x200A),
         (0x2028, 0x2029), (0x202F, 0x202F), (0x205F, 0x205F), (0x3000, 0x3000)]
DIGIT = [(0x30, 0x39)]
WORD = [(0x30, 0x39), (0x41, 0x5A), (0x5F, 0x5F), (0x61, 0x7A)]
MAXCP = 0x2FFFF   # z3's character sort


def _chr(cp):
    return z3.StringVal(chr(cp)) if cp < 0x10000 or True else None


def ranges_re(ranges):
    parts = []
    for lo, hi in ranges:
        if lo == hi:
            parts.append(z3.Re(z3.StringVal(chr(lo))))
        else:
            parts.append(z3.Range(z3.StringVal(chr(lo)), z3.StringVal(chr(hi))))
    if not parts:
        return z3.Empty(RS)
    return parts[0] if len(parts) == 1 else z3.Union(*parts)


def norm(ranges):
    rs = sorted((lo, hi) for lo, hi in ranges if lo <= hi)
    out = []
    for lo, hi in rs:
        if out and lo <= out[-1][1] + 1:
            out[-1] = (out[-1][0], max(out[-1][1], hi))
        else:
            out.append((lo, hi))
    return out


def negate(ranges):
    out, prev = [], 0
    for lo, hi in norm(ranges):
        if lo > prev:
            out.append((prev, lo - 1))
        prev = hi + 1
    if prev <= MAXCP:
        out.append((prev, MAXCP))
    return out


def subtract(a, b):
    nb = negate(b)
    out = []
    for lo, hi in norm(a):
        for l2, h2 in nb:
            l, h = max(lo, l2), min(hi, h2)
            if l <= h:
                out.append((l, h))
    return norm(out)


class RxError(Exception):
    pass


class Rx:
    """Parser: regex text -> z3 RegLan.  Character classes are kept as code point range lists."""

    def __init__(self, text):
        self.s = text
        self.i = 0
        self.approx = False
        self.re = self._alt()
        if self.i != len(self.s):
            raise RxError("unexpected %r at %d in %r" % (self.s[self.i], self.i, self.s))

    def _peek(self):
        return self.s[self.i] if self.i < len(self.s) else None

    def _alt(self):
        parts = [self._concat()]
        while self._peek() == "|":
            self.i += 1
            parts.append(self._concat())
        return parts[0] if len(parts) == 1 else z3.Union(*parts)

    def _concat(self):
        parts = []
        while self._peek() is not None and self._peek() not in "|)":
            parts.append(self._repeat())
        if not parts:
            return z3.Re(z3.StringVal(""))
        return parts[0] if len(parts) == 1 else z3.Concat(*parts)

    def _repeat(self):
        a = self._atom()
        while self._peek() is not None and self._peek() in "*+?{":
            c = self._peek()
            if c == "{":
                j = self.s.find("}", self.i)
                body = self.s[self.i + 1:j] if j > 0 else ""
                if j < 0 or not all(ch.isdigit() or ch == "," for ch in body) or not body:
                    raise RxError("unsupported '{' at %d in %r" % (self.i, self.s))
                self.i = j + 1
                if "," in body:
                    lo, hi = body.split(",")
                    lo = int(lo or 0)
                    a = z3.Concat(*([a] * lo + [z3.Star(a)])) if hi == "" and lo > 0 else (z3.Star(a) if hi == "" else z3.Loop(a, lo, int(hi)))
                else:
                    a = z3.Loop(a, int(body), int(body))
                continue
            self.i += 1
            a = {"*": z3.Star, "+": z3.Plus, "?": z3.Option}[c](a)
            if self._peek() == "?":      # lazy quantifiers do not change the language
                self.i += 1
        return a

    def _escape_ranges(self):
        """after a backslash: returns (ranges) for the escape"""
        c = self._peek()
        if c is None:
            raise RxError("dangling escape in %r" % self.s)
        self.i += 1
        if c == "n":
            return [(10, 10)]
        if c == "r":
            return [(13, 13)]
        if c == "t":
            return [(9, 9)]
        if c == "f":
            return [(12, 12)]
        if c == "v":
            return [(11, 11)]
        if c == "0":
            return [(0, 0)]
        if c == "s":
            return list(WHITE)
        if c == "S":
            return negate(WHITE)
        if c == "d":
            self.approx = True
            return list(DIGIT)
        if c == "D":
            self.approx = True
            return negate(DIGIT)
        if c == "w":
            self.approx = True
            return list(WORD)
        if c == "W":
            self.approx = True
            return negate(WORD)
        if c in "ux":
            if self._peek() == "{":
                j = self.s.index("}", self.i)
                cp = int(self.s[self.i + 1:j], 16)
                self.i = j + 1
            else:
                n = 4 if c == "u" else 2
                cp = int(self.s[self.i:self.i + n], 16)
                self.i += n
            return [(cp, cp)]
        if c in "bBAzZpP":
            raise RxError("unsupported escape \\%s in %r" % (c, self.s))
        return [(ord(c), ord(c))]

    def _class(self):
        """after '[' ; returns ranges"""
        neg = False
        if self._peek() == "^":
            neg = True
            self.i += 1
        items = []
        first = True
        while True:
            c = self._peek()
            if c is None:
                raise RxError("unterminated class in %r" % self.s)
            if c == "]" and not first:
                self.i += 1
                break
            first = False
            if c == "[":
                self.i += 1
                items += self._class()
                continue
            if c == "-" and self.s.startswith("--", self.i):
                # set difference: everything so far minus the rest of the class
                self.i += 2
                rest = self._class_rest()
                items = subtract(items, rest)
                break
            if c == "&" and self.s.startswith("&&", self.i):
                raise RxError("class intersection unsupported in %r" % self.s)
            if c == "\\":
                self.i += 1
                lo = self._escape_ranges()
            else:
                self.i += 1
                lo = [(ord(c), ord(c))]
            if self._peek() == "-" and not self.s.startswith("--", self.i) and self.i + 1 < len(self.s) and self.s[self.i + 1] != "]" and len(lo) == 1 and lo[0][0] == lo[0][1]:
                self.i += 1
                c2 = self._peek()
                if c2 == "\\":
                    self.i += 1
                    hi = self._escape_ranges()
                else:
                    self.i += 1
                    hi = [(ord(c2), ord(c2))]
                items.append((lo[0][0], hi[0][0]))
            else:
                items += lo
        return negate(items) if neg else norm(items)

    def _class_rest(self):
        """operand of `--` up to the closing ']' (consumed)"""
        items = []
        while True:
            c = self._peek()
            if c is None:
                raise RxError("unterminated class in %r" % self.s)
            if c == "]":
                self.i += 1
                return norm(items)
            if c == "[":
                self.i += 1
                items += self._class()
            elif c == "\\":
                self.i += 1
                items += self._escape_ranges()
            else:
                self.i += 1
                items.append((ord(c), ord(c)))

    def _atom(self):
        c = self._peek()
        if c == "(":
            self.i += 1
            if self.s.startswith("?:", self.i):
                self.i += 2
            elif self._peek() == "?":
                raise RxError("unsupported group flag in %r" % self.s)
            a = self._alt()
            if self._peek() != ")":
                raise RxError("missing ')' in %r" % self.s)
            self.i += 1
            return a
        if c == "[":
            self.i += 1
            return ranges_re(self._class())
        if c == ".":
            self.i += 1
            return ranges_re(negate([(10, 10)]))
        if c == "\\":
            self.i += 1
            return ranges_re(self._escape_ranges())
        if c in "^$":
            raise RxError("anchors unsupported in %r" % self.s)
        if c in "*+?":
            raise RxError("nothing to repeat at %d in %r" % (self.i, self.s))
        self.i += 1
        return z3.Re(z3.StringVal(c))


def to_re(text):
    return Rx(text).re


def lit(s):
    return z3.Re(z3.StringVal(s))


ANY = z3.AllChar(RS)
ANYSTAR = z3.Star(ANY)


def solve_member(constraints_fn, timeout_ms=60000, max_len=None):
    """constraints_fn(x) -> list of z3 constraints over the string variable x."""
    x = z3.String("x")
    s = z3.Solver()
    s.set("timeout", timeout_ms)
    s.add(constraints_fn(x))
    if max_len is not None:
        s.add(z3.Length(x) <= max_len)
    r = s.check()
    if r == z3.sat:
        v = s.model().eval(x, model_completion=True)
        return "sat", v.as_string()
    if r == z3.unsat:
        return "unsat", None
    return "unknown", s.reason_unknown()


def z3_unescape(s):
    """z3 prints non-ASCII as \\u{..}; turn a model string into a Python str."""
    import re
    return re.sub(r"\\u\{([0-9a-fA-F]+)\}", lambda m: chr(int(m.group(1), 16)), s)
