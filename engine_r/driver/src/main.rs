//! Engine R driver: calls the real `ScannerConfig::generate_build_information` (and the real
//! `TerminalKind::expand`) for scanner configurations read as JSON lines from stdin and prints the
//! emitted regular expressions as JSON lines.
//!
//! request:  {"id":..,"grammar":"<par text>","line":[[kind,text]..],"block":[[kind,s,kind,e]..],
//!            "auto_newline":bool,"auto_ws":bool,"allow_unmatched":bool}
//! response: {"id":..,"ok":true,"terminals":[[regex,index,lookahead|null,name]..]} | {"id":..,"ok":false,"error":..}
use parol::generators::{ScannerConfig, generate_terminal_names};
use parol::{TerminalKind, obtain_grammar_config_from_string};
use serde_json::{Value, json};
use std::io::{BufRead, Write};

fn kind(s: &str) -> TerminalKind {
    match s {
        "raw" => TerminalKind::Raw,
        "re" => TerminalKind::Regex,
        _ => TerminalKind::Legacy,
    }
}

fn main() {
    let stdin = std::io::stdin();
    let stdout = std::io::stdout();
    let mut out = stdout.lock();
    // constants of the runtime the generator splices in
    writeln!(
        out,
        "{}",
        json!({"constants": {"NEW_LINE_TOKEN": parol_runtime::lexer::NEW_LINE_TOKEN, "WHITESPACE_TOKEN": parol_runtime::lexer::WHITESPACE_TOKEN,
               "ERROR_TOKEN": parol_runtime::lexer::ERROR_TOKEN}})
    )
    .unwrap();
    for line in stdin.lock().lines() {
        let line = line.unwrap();
        if line.trim().is_empty() {
            continue;
        }
        let v: Value = serde_json::from_str(&line).unwrap();
        let id = v["id"].clone();
        if let Some(text) = v.get("grammar_full").and_then(|t| t.as_str()) {
            // whole pipeline: PAR text -> ParolGrammar -> GrammarConfig (scanner configurations as parol
            // derives them from the directives) -> generate_build_information per scanner state
            let text = text.to_owned();
            let r = std::panic::catch_unwind(move || -> Result<Value, String> {
                let gc = obtain_grammar_config_from_string(&text, false).map_err(|e| format!("{e:?}"))?;
                let names = generate_terminal_names(&gc);
                let mut states = Vec::new();
                for sc in &gc.scanner_configurations {
                    let (terms, _) = sc.generate_build_information(&gc, &names).map_err(|e| format!("{e}"))?;
                    let t: Vec<Value> = terms
                        .iter()
                        .map(|(rx, idx, la, name)| json!([rx, idx, la.as_ref().map(|(p, s)| json!([p, s])), name]))
                        .collect();
                    states.push(json!({"name": sc.scanner_name, "state": sc.scanner_state, "terminals": t}));
                }
                Ok(json!({"states": states}))
            });
            let resp = match r {
                Ok(Ok(mut o)) => {
                    o["id"] = id;
                    o["ok"] = json!(true);
                    o
                }
                Ok(Err(e)) => json!({"id": id, "ok": false, "error": e}),
                Err(_) => json!({"id": id, "ok": false, "error": "panic", "panic": true}),
            };
            writeln!(out, "{}", resp).unwrap();
            continue;
        }
        if let Some(text) = v.get("parse_text").and_then(|t| t.as_str()) {
            // C34 replay: parol's own grammar parser on a text
            let text = text.to_owned();
            let r = std::panic::catch_unwind(move || {
                let mut g = parol::ParolGrammar::new();
                match parol::parser::parse(&text, "witness.par", &mut g) {
                    Ok(_) => ("ok".to_string(), String::new()),
                    Err(e) => {
                        let d = format!("{e:?}");
                        let syntax = d.contains("SyntaxErrors") || d.contains("PredictionError") || d.contains("UnprocessedInput") || d.contains("LexerError");
                        ((if syntax { "syntax_error" } else { "other_error" }).to_string(), d.chars().take(300).collect())
                    }
                }
            });
            let resp = match r {
                Ok((k, d)) => json!({"id": id, "ok": true, "parse": k, "detail": d}),
                Err(_) => json!({"id": id, "ok": false, "error": "panic", "panic": true}),
            };
            writeln!(out, "{}", resp).unwrap();
            continue;
        }
        let res = std::panic::catch_unwind(|| -> Result<Value, String> {
            let gc = obtain_grammar_config_from_string(v["grammar"].as_str().unwrap(), false).map_err(|e| format!("{e}"))?;
            let names = generate_terminal_names(&gc);
            let lc: Vec<String> = v["line"].as_array().map(|a| a.iter().map(|p| kind(p[0].as_str().unwrap()).expand(p[1].as_str().unwrap())).collect()).unwrap_or_default();
            let bc: Vec<(String, String)> = v["block"]
                .as_array()
                .map(|a| {
                    a.iter()
                        .map(|p| (kind(p[0].as_str().unwrap()).expand(p[1].as_str().unwrap()), kind(p[2].as_str().unwrap()).expand(p[3].as_str().unwrap())))
                        .collect()
                })
                .unwrap_or_default();
            let sc = ScannerConfig::default()
                .with_line_comments(lc.clone())
                .with_block_comments(bc.clone())
                .with_auto_newline(v["auto_newline"].as_bool().unwrap_or(true))
                .with_auto_ws(v["auto_ws"].as_bool().unwrap_or(true))
                .with_allow_unmatched(v["allow_unmatched"].as_bool().unwrap_or(false));
            let (terms, _) = sc.generate_build_information(&gc, &names).map_err(|e| format!("{e}"))?;
            let t: Vec<Value> = terms
                .iter()
                .map(|(rx, idx, la, name)| json!([rx, idx, la.as_ref().map(|(p, s)| json!([p, s])), name]))
                .collect();
            Ok(json!({"terminals": t, "expanded_line": lc, "expanded_block": bc}))
        });
        let resp = match res {
            Ok(Ok(mut o)) => {
                o["id"] = id;
                o["ok"] = json!(true);
                o
            }
            Ok(Err(e)) => json!({"id": id, "ok": false, "error": e}),
            Err(_) => json!({"id": id, "ok": false, "error": "panic", "panic": true}),
        };
        writeln!(out, "{}", resp).unwrap();
    }
}
