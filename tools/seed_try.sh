#!/bin/bash
# usage: seed_try.sh <seed dir with patch.diff> <check ids...> ; applies the patch to /repo, runs the checks, reverts.
sd=$1; shift
cd /repo || exit 9
git status --porcelain --untracked-files=no | grep -q . && { echo "/repo not clean"; exit 9; }
git apply "$sd/patch.diff" || { echo "patch does not apply"; exit 9; }
for c in "$@"; do
  echo "=== $c with $(basename $sd)"
  (cd /verif && ./check $c 2>&1 | grep -E "^(VIOLATION|RESULT|INCONCLUSIVE|KNOWN)" | cut -c1-300 | head -8)
done
git checkout -- . && echo "reverted"
