#!/bin/bash
# usage: seed_confirm.sh <id> '<demo command run in the worktree root; must exit non-zero/FAIL with the patch>'
# Confirms in the seed's scratch worktree: patch applies to HEAD, suite passes WITH the patch,
# demo fails WITH and passes WITHOUT the patch.  Writes /verif/build/seedconfirm_<id>.log
id=$1; demo=$2; wt=/tmp/seed_$id
export CARGO_NET_OFFLINE=true CARGO_TARGET_DIR=$wt/target
log=/verif/build/seedconfirm_$id.log
cd $wt || exit 9
{
echo "== $id: restoring clean tree and applying patch"
git checkout -- . && git apply --check OUT/patch.diff && git apply OUT/patch.diff && echo PATCH_APPLIES=yes
echo "== suite WITH patch"
cargo nextest run --workspace --no-fail-fast --tool-config-file pb:/w/lib/nextest.toml --profile pb --test-threads 8 --offline 2>&1 | tail -4
echo "== demo WITH patch"
bash -c "$demo" > OUT/confirm_demo_with.txt 2>&1; echo "DEMO_WITH_RC=$?"; tail -15 OUT/confirm_demo_with.txt
echo "== demo WITHOUT patch"
git apply -R OUT/patch.diff
bash -c "$demo" > OUT/confirm_demo_without.txt 2>&1; echo "DEMO_WITHOUT_RC=$?"; tail -8 OUT/confirm_demo_without.txt
git apply OUT/patch.diff
git status --short | grep -v "^??" | head
} > $log 2>&1
