#!/usr/bin/env python3
"""seed_prep.py <seed id e.g. C18 or C16c> : creates /tmp/seed_<id> worktree (detached HEAD of /repo) + OUT/property.json, prints the agent prompt."""
import sys, json, os, subprocess, re
sid = sys.argv[1]
pid = re.match(r"C\d\d", sid).group(0)
wt = "/tmp/seed_%s" % sid
if not os.path.exists(wt):
    subprocess.check_call(["git", "-C", "/repo", "worktree", "add", "--detach", wt, "HEAD"], stdout=subprocess.DEVNULL, stderr=subprocess.DEVNULL)
os.makedirs(wt + "/OUT/demo", exist_ok=True)
rec = [json.loads(l) for l in open("/verif/properties.jsonl") if json.loads(l)["id"] == pid][0]
json.dump(rec, open(wt + "/OUT/property.json", "w"), indent=1)
t = open("/verif/tools/seed_prompt.txt").read()
files = rec.get("code_anchors") or rec.get("anchors") or rec.get("files") or ""
t = (t.replace("{ID}", sid).replace("{TITLE}", rec.get("title", "")).replace("{STATEMENT}", rec.get("statement", ""))
     .replace("{QUANT}", str(rec.get("quantifier", ""))).replace("{FILES}", json.dumps(files)))
extra = sys.argv[2] if len(sys.argv) > 2 else ""
print(t + "\n" + extra)
