#!/bin/bash
# usage: run_some.sh <tier> <id>...   sequential runs, summary appended to build/run_some.log
tier=$1; shift
cd /verif
for id in "$@"; do
  s=$(date +%s)
  ./check $id --tier $tier > build/$id.$tier.out 2>&1; rc=$?
  e=$(date +%s)
  echo "$tier $id rc=$rc $((e-s))s $(grep -c '^KNOWN-FINDING' build/$id.$tier.out) known $(grep -c '^VIOLATION' build/$id.$tier.out) violations $(grep -c '^INCONCLUSIVE' build/$id.$tier.out) inconclusive" | tee -a build/run_some.log
done
