#!/usr/bin/env python3
"""seed_save.py <id> '<caught_by text>' '<what I ran>' : copies the confirmed seed from /tmp/seed_<id>/OUT to /verif/seeded/<id>/"""
import sys, os, json, shutil, re
sid, caught, ran = sys.argv[1], sys.argv[2], sys.argv[3]
src = "/tmp/seed_%s/OUT" % sid
dst = "/verif/seeded/%s" % sid
os.makedirs(dst, exist_ok=True)
shutil.copy(os.path.join(src, "patch.diff"), dst)
if os.path.exists(os.path.join(dst, "demo")):
    shutil.rmtree(os.path.join(dst, "demo"))
shutil.copytree(os.path.join(src, "demo"), os.path.join(dst, "demo"), ignore=shutil.ignore_patterns("target", "*.json.big"))
meta = {}
try:
    meta = json.load(open(os.path.join(src, "meta.json")))
except Exception as e:
    meta = {"note": "agent meta.json unreadable: %r" % e}
log = open("/verif/build/seedconfirm_%s.log" % sid).read() if os.path.exists("/verif/build/seedconfirm_%s.log" % sid) else ""
conf = {
    "patch_applies_to_head": "PATCH_APPLIES=yes" in log,
    "suite_with_patch": (re.findall(r"Summary.*", log) or ["?"])[0].strip(),
    "demo_with_patch_rc": (re.findall(r"DEMO_WITH_RC=(\d+)", log) or ["?"])[0],
    "demo_without_patch_rc": (re.findall(r"DEMO_WITHOUT_RC=(\d+)", log) or ["?"])[0],
}
out = {"property": sid, "breaks": meta.get("summary"), "needs": meta.get("needs"), "files_changed": meta.get("files_changed"),
       "agent_report": {k: meta.get(k) for k in ("test_suite", "demo_with_change", "demo_without_change")},
       "confirmed_by_me": conf, "what_i_ran": ran, "checks_result": caught}
json.dump(out, open(os.path.join(dst, "meta.json"), "w"), indent=1)
# drop bulky files
for root, dirs, files in os.walk(dst):
    for f in files:
        p = os.path.join(root, f)
        if os.path.getsize(p) > 300000:
            os.remove(p)
print("saved", dst, conf)
