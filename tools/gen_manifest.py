#!/usr/bin/env python3
"""Regenerates /verif/MANIFEST.json from the table below (single source of truth)."""
import json, os, subprocess

V = "/verif"

NA = {
 "C11": "string-keyed set/graph fix-points over whole grammars; 2-production symbolic probe did not leave symbolic execution in 30 min; corpus comparison against reference fix-points would be differential testing",
 "C14": "the real TokenBuffer is out of CBMC's reach: one concrete add + take_skip_tokens takes 460 s, a single add with a symbolic span did not finish in 700 s, LR reductions over real tokens did not finish in 25 min; whole parse runs (tree leaves) did not finish either; byte/line/column arithmetic lives in the external scnr2 crate. The gap-token and skip-classification pieces that could be decided are claimed under C16 (catch-all coverage) and C17 (classification kernel)",
 "C13": "implemented by the external scnr2 matcher on proc-macro generated DFAs; real scanner + stream did not finish a concrete 2-byte input in 15 min under CBMC; parol-side pieces are decided under C15/C16",
 "C21": "source/JSON rendering for all grammars; behaviour-changing table errors surface under C01/C03/C07/C08 only",
 "C22": "the oracle is rustc; nothing for a solver to decide",
 "C23": "generated per-grammar heap/trait-object code through the full runtime; out of reach of CBMC, and no artifact to encode",
 "C24": "needs reasoning through SipHash seeding and hashbrown probing with free keys; Kani has no model of RandomState",
 "C25": "string rendering + full parser round trip for all grammars; equality of GrammarConfig values not encodable",
 "C26": "whole-program panic freedom over code CBMC cannot execute (String/HashMap/regex/format heavy generator)",
 "C27": "generated parser + AST + string assembly on whole documents; not encodable",
 "C28": "needs the parol-ls parser and symbol tables on whole texts; not encodable",
 "C29": "OS-thread interleavings; Kani has no concurrency support and no faithful schedule encoding can be generated from the real code with the tools in this image",
 "C33": "regex-driven string generation; validity of emitted identifiers for all grammars is not a solver question",
}

# property -> dict(category, text, note, technique, design_ref)
CHECKS = {}

def add(pid, category, text, note, technique, ref, thorough=True):
    CHECKS[pid] = dict(category=category, text=text, note=note, technique=technique, ref=ref, thorough=thorough)

K_NOTE = "trusted: Kani 0.68 / CBMC 6.11 / CaDiCaL model of the dev profile; stubs and assumptions are listed per harness in the evidence file; bounded claim only"

add("C32", "model_checking",
    "Bounded model checking (Kani/CBMC) of the real Terminals/TerminalString/KTuple code: one inductive step per operation from an arbitrary valid packed state (all widths 1..12 bits, all lengths <= 10, all slot contents, k <= 10); each operation is asserted to commute with the sequence operation and to re-establish the representation invariant. The solver covers every value inside the bound, including every width boundary, which sampling cannot.",
    K_NOTE + "; representation invariant assumed for pre-states (and proved preserved by every operation); KTuples hash sets outside the claim",
    "SAT-based bounded model checking of compiled Rust (Kani proof harnesses, unwinding assertions on), counterexamples replayed natively with kani playback",
    "DESIGN.md §4 C32")

G_NOTE = "trusted: independent lark PAR reader, CFG->SAT encoder (self-validated on every run against a leftmost-derivation enumerator for all strings <= 4; every witness re-checked by CYK / table-driven parser and where possible by the natively built generated parser), z3; bounded in sentence length N; the programs quantifier is covered by the stated grammar corpus (repository grammars + /verif/grammars)"
TV = "translation_validation"

add("C01", TV,
    "Translation validation of what the real generator produced, decided by z3 for ALL token strings up to N per corpus grammar: the PRODUCTIONS table in the generated parser source encodes the transformed grammar (shape + injective terminal map), has the same bounded language as the grammar as written (independent reader, textbook EBNF semantics), and G-tab shows that table-driven prediction with the generated LOOKAHEAD_AUTOMATA picks the right production at every node of every parse tree of every sentence <= N (so exactly the sentences are accepted by a predictive parser on these tables). The runtime side is covered by kernels only: eval is exact on all buffers (C08), and an add_error Kani leg in this check shows that a reported syntax error is always recorded (recovery on or off), so the final error test of parse_into cannot be passed after an error.",
    G_NOTE + "; runtime loop LLKParser::parse_into itself is not symbolically executed in this check (see C08/C19 for the kernels); recovery on/off does not change tables",
    "bounded CFG language equivalence + LL(k) table validity encoded in SMT (z3), regenerated from parol's real output on every run; witnesses replayed on the generated parser; plus a Kani kernel leg (add_error)", "DESIGN.md §4 C01")
add("C05", TV,
    "G-kdec: the strong-LL(k) decision of the real parol, validated per grammar and lookahead limit K by a two-sentence conflict query in z3 over the transformed grammar (all pairs of sentences <= N): accepted - for every non-terminal with alternatives and its assigned k_A (read from the generated LOOKAHEAD_AUTOMATA) no two productions are applied under the same k_A upcoming tokens (unsat required), at k_A-1 such a pair exists (sat required: k_A is minimal), k_A <= K, k = 0 exactly for single-production non-terminals; rejected with 'Maximum lookahead exceeded' - `parol decidable` on the transformed grammar names at least one non-terminal, every named production pair has a sat overlap witness at K, every non-terminal not named is conflict-free at K.",
    G_NOTE + "; an unsat answer where a conflict is required raises an alarm only when exact reference FIRST_k/FOLLOW_k sets confirm that no conflict exists (otherwise listed as undecided within N); grammars above 36 productions are skipped; FIRST/FOLLOW sets themselves (C06) are not claimed",
    "strong-LL(k) conflict (overlap of k-lookahead sets) encoded as a bounded two-derivation SMT query (z3) over the grammar the real parol transformed, regenerated on every run; alarms confirmed by an exact set fix-point", "DESIGN.md §4 C05")
add("C06", TV,
    "The FIRST_k sets (per production and per non-terminal) and FOLLOW_k sets (per non-terminal) that the real `parol first` / `parol follow` print for the transformed grammar are compared with their definitions by z3 over all derivations <= N: completeness (unsat required) - no string derivable from X has a k-truncated prefix outside FIRST_k(X), no sentence has an occurrence of A followed by k tokens (end of input padded) outside FOLLOW_k(A); soundness (sat required per printed tuple) - every tuple is the k-prefix / k-follow of a derivation <= N.",
    G_NOTE + "; one request per k and process: the order of cache requests across k (the 'histories' part of the property) is not varied and not claimed; a tuple without a witness <= N is an alarm only if exact reference sets do not contain it (else undecided within N); grammars above 30 productions are skipped",
    "FIRST_k/FOLLOW_k membership encoded as bounded-derivation SMT queries (z3) over the grammar the real parol transformed and the sets it printed, regenerated on every run", "DESIGN.md §4 C06")
add("C07", TV,
    "G-tab on the minimised automata the real generator writes (generated parser source, and the export model): completeness (unsat required: every production applied in any sentence <= N is the one the automaton predicts within its declared k), exactness (every accepting path justified by a sentence <= N; semi-decided, unjustified paths are reported not alarmed) and the structural contract (sorted, deterministic, dense, accepting states are leaves, depth <= k <= MAX_K, predicted productions belong to the non-terminal).",
    G_NOTE, "LL(k) table validity encoded in SMT (z3) over all sentences <= N per grammar and lookahead limit", "DESIGN.md §4 C07")
add("C08", "model_checking",
    "Bounded model checking (Kani/CBMC) of the real LookaheadDFA::eval against a reference walk: (a) every lookahead automaton that the freshly built parol generates for 10 committed grammars (concrete tables, 4 symbolic tokens); (b) SYMBOLIC transition tables satisfying the generator contract that C07 checks on real tables - quick: <= 4 transitions / <= 4 states / k <= 2 and <= 3 transitions / <= 4 states / k <= 3; thorough adds <= 6 transitions / <= 5 states / k <= 3 (reported as not reached if the solver does not finish) - with all lookahead buffers of arbitrary u16 token types: Ok(p) iff the buffer begins with a path to a state accepting p, else a prediction error; no token is skipped.",
    K_NOTE + "; TokenStream::lookahead_token_type is stubbed by a cursor over a symbolic array (the real stream pads to k tokens with EOI); counterexamples are replayed natively on a real TokenStream",
    "SAT-based bounded model checking of compiled Rust (Kani), symbolic automaton + symbolic tokens, native replay through a real scnr2 TokenStream", "DESIGN.md §4 C08")
add("C09", TV,
    "z3 decides per corpus grammar, for ALL token strings up to N, that the grammar as written and the output of the real canonicalisation (parol -u) generate the same strings - for the start symbol and for every user non-terminal - plus the alternative-count conjunct that exposes helper-name clashes.",
    G_NOTE, "bounded CFG language equivalence in SMT (z3) between the source text and parol's real -u output", "DESIGN.md §4 C09")
add("C10", TV,
    "z3 decides per LL corpus grammar, for ALL token strings up to N, that the grammar before (parol -u) and after (parol -e) the real left factoring generate the same strings, for the start symbol and every pre-existing non-terminal; the factored grammar must have no two non-empty alternatives with the same first symbol; the public left-factor sub-command is validated on the committed BNF grammars; termination is observed.",
    G_NOTE, "bounded CFG language equivalence in SMT (z3) between parol's real -u and -e outputs", "DESIGN.md §4 C10")
add("C12", TV,
    "z3 decides per LALR(1) corpus grammar, for ALL token strings up to N, that the grammar before and after the real LR augmentation generate the same strings; the augmented start symbol must have exactly one production and occur on no right-hand side.",
    G_NOTE, "bounded CFG language equivalence in SMT (z3) between parol's real -u and -e outputs for LALR grammars", "DESIGN.md §4 C12")
add("C15", TV,
    "For each delimiter pair of a stated family the real generate_build_information/format_block_comment is called natively and z3's regular-expression theory decides over ALL strings (unbounded) whether the emitted pattern's language equals start.(text up to and including the first end delimiter) - a prefix-free language, so the longest-match token is exactly that; line comments likewise. Every witness is replayed on the real scnr2 scanner; recorded defect classes are printed as KNOWN-FINDING, anything else is a violation.",
    "trusted: regex->z3 translator (validated on every run against the repository's scan_test! vectors and by replay), z3 sequence theory, scnr2's leftmost-longest rule; delimiter family and spelling (raw) are stated in the evidence; bare CR line ends outside the claim",
    "regular-language equivalence queries in z3's sequence/regex theory over regexes emitted by the real generator; native replay with scnr2", "DESIGN.md §4 C15")
add("C31", "model_checking",
    "Bounded model checking (Kani/CBMC) of the real Recovery::levenshtein_distance for every pair of lengths up to 3x3 (quick) / 4x4 (thorough) with all u16 element values: the returned script transforms act into exp, its non-keep count equals the reported distance, and an arbitrary script chosen by the solver is never cheaper (minimality without a reference DP).",
    K_NOTE + "; one harness per concrete length pair (symbolic Vec lengths exhaust CBMC), contents fully symbolic; minimal_token_difference outside the claim",
    "SAT-based bounded model checking of compiled Rust (Kani), universally quantified competitor script", "DESIGN.md §4 C31")

add("C16", TV,
    "For every scanner configuration of a stated family (auto newline x auto whitespace x allow_unmatched x comments x terminal sets) the real generate_build_information is called natively and z3's regex theory decides over ALL non-empty strings whether some input has no terminal of the mode matching any non-empty prefix (it would become a silently skipped gap). Without allow_unmatched this must be unsatisfiable; with it the mode must contain no catch-all. Witnesses are replayed on the natively built generated parser (sentence + witness must be rejected).",
    "trusted: regex->z3 translator (same as C15), z3; characters above U+2FFFF are outside z3's character sort; the step 'Error token => parse fails' is C01's foreign-token case",
    "regular-language coverage queries in z3's regex theory over the terminal lists emitted by the real generator; native replay on the generated parser", "DESIGN.md §4 C16")
add("C30", "model_checking",
    "Bounded model checking (Kani/CBMC) of the real parol-ls pos_to_offset / extract_text_range on a committed list of text templates (no trailing newline, LF, CRLF, bare CR, empty lines, 2- and 3-byte characters) for every line and a symbolic character index: offset <= len, on a char boundary, equal to an independent byte-scan reference (clamping past line/text ends), ranges never panic. Kernel-level partial claim: whole LSP requests are outside.",
    K_NOTE + "; texts and lines concrete per harness, character indices symbolic; counterexamples replayed natively with kani playback",
    "SAT-based bounded model checking of compiled Rust (Kani) in the parol-ls binary crate", "DESIGN.md §4 C30")
add("C34", TV,
    "z3 decides for ALL token strings up to N over the shared PAR token vocabulary (41 terminals) that parol.par and parol_ls.par - the sources both parsers are generated from - derive the same strings; a witness is rendered to text and replayed on parol's real grammar parser and on the parser generated from parol_ls.par with the language server's generator options.",
    G_NOTE + "; terminals identified by expanded pattern; scanner-state dependent tokenisation differences outside the claim",
    "bounded CFG language equivalence in SMT (z3) between the two grammar sources; native replay on both parsers", "DESIGN.md §4 C34")

add("C03", TV,
    "G-LR: per LALR(1) corpus grammar the PARSE_TABLE written by the real generator is unrolled as an LR automaton over symbolic tokens (bit-vectors) and z3 decides for ALL token strings up to N that the table accepts exactly the sentences of the grammar as written (two queries) and that the unrolling bounds suffice (third query); every reduce action is checked to pop states whose accessing symbols spell the production (each reduction is a derivation step, so an accepting run is a rightmost derivation in reverse). Table construction finishing without a crash is observed on the corpus. The runtime's reduce step (call_action) is covered by the C02/C17 kernels.",
    G_NOTE + "; LRParser::parse_into itself is not symbolically executed; big tables (> 40 states) are validated at N = 3 only",
    "bounded LR-automaton unrolling in QF_BV (z3) against bounded CFG derivability, on tables read from the generated parser source; native replay on the generated parser", "DESIGN.md §0.2, §4 C03")

STEP_NOTE = K_NOTE + "; pre-states are built directly from private fields (cfg(kani) child modules of the two parser_types.rs); tables are the constant blocks copied from the parser source the freshly built parol generates for the committed corpus grammars; whole parse runs are outside the claim (a^n b^n, N <= 2, did not finish in 45 min / 9 GB), so the claim is per mechanism"
add("C02", "model_checking",
    "Bounded model checking (Kani/CBMC) of the LL mechanisms the property rests on, one step at a time from directly built states, on generated tables: push_production (marker + stored right-hand side pushed, one node opened, one production entry) and process_item_stack (semantic action called exactly once per marker - never in recovery mode - with exactly one child per right-hand-side symbol, in grammar order, taken from the top of the tree stack; node closed unless trimmed; all productions of a table are completed one after the other on ONE parser object, so state carried from one completed production to the next is covered), for every production of 3 (quick) / 5 (thorough) corpus grammars and all option values; plus ParseTreeStack::split_off / pop_n kernels for all stacks <= 6. Partial: derivation ORDER over a whole parse is not claimed.",
    STEP_NOTE, "SAT-based bounded model checking of compiled Rust (Kani), one-step harnesses over private parser state", "DESIGN.md §0.5, §4.0")
add("C04", TV,
    "Two legs on the LALR(1) corpus (repository, committed and generated grammars). Soundness: for every grammar for which parol REPORTS resolved conflicts the generated PARSE_TABLE, unrolled as an LR automaton over symbolic tokens (z3, bit-vectors), accepts no token string up to N that is not a sentence of the grammar as written. Reporting (partial): for every grammar accepted WITHOUT a reported conflict z3 decides that the grammar handed to table construction has no sentence up to N with two different parse trees - an ambiguous grammar is not LALR(1), so such a witness means a conflict was resolved silently. Non-LALR(1) grammars that are unambiguous are not detected.",
    G_NOTE + "; bounded-ambiguity encoding after Axelsson/Heljanko/Lange, witnesses confirmed by an independent parse-tree counter",
    "bounded LR-automaton unrolling in QF_BV and bounded ambiguity detection in SAT (z3)", "DESIGN.md §0.2")
add("C17", "model_checking",
    "Bounded model checking (Kani/CBMC) of the kernels: the skip classification used by the token buffer, the LL loop and the LR tree stack (Token::is_skip_token / is_effectively_skip_token / is_comment_token, LRParseTree::is_skip_token) is the same function of (token type, state_skip) for every u16 type and flag; ParseTreeStack::pop_n (used by LR reductions to take |rhs| significant entries) never counts a skipped entry and keeps it inside the reduced node, for all stacks <= 6 with symbolic flags. Partial: TokenBuffer filtering and whole-run comment delivery are not claimed.",
    STEP_NOTE + "; pop_n is verified at the instantiation T = Flag (the instantiation at LRParseTree with real tokens did not finish)",
    "SAT-based bounded model checking of compiled Rust (Kani), kernel harnesses", "DESIGN.md §0.5")
add("C19", "model_checking",
    "Kani's default checks (panic, unwrap on None, index out of bounds, arithmetic overflow in the dev profile, slice ranges) with unwinding assertions over the same one-step and kernel harnesses: push_production, process_item_stack, pop_n, split_off and token classification neither panic nor loop beyond the bound from any pre-state of the stated families. Partial: whole inputs, recovery and the LR loop are not claimed.",
    STEP_NOTE, "SAT-based bounded model checking of compiled Rust (Kani): panic/overflow freedom of the parser kernels", "DESIGN.md §0.5")
add("C20", "model_checking",
    "Bounded model checking (Kani/CBMC) of the option-dependent LL steps with all option values symbolic: trimming only removes tree-builder calls (same stack effect, same semantic-action call), the depth counter skips push productions and MaxParsingDepthExceeded is returned exactly when the counter exceeds the limit (never without one), recovery mode suppresses action calls only. Partial: equality of whole-run outcomes and the LR depth limit are not claimed.",
    STEP_NOTE, "SAT-based bounded model checking of compiled Rust (Kani), one-step harnesses with symbolic option values", "DESIGN.md §0.5")

add("C18", TV,
    "Partial: z3 decides per LL corpus grammar, for ALL token strings up to N, that the grammar as written (terminals = expanded patterns) and the generated PRODUCTIONS / LOOKAHEAD_AUTOMATA, with terminal indices read through the regular expressions the GENERATED SCANNER assigns to them, describe the same language; plus index-range conjuncts (every index used is produced by a scanner mode, every scanner terminal belongs to the grammar, name table size). A production table that numbers a raw literal like the regex literal with equal text is a language difference. Skip lists and scanner-transition lists are not covered.",
    G_NOTE + "; literals with different quoting but the same expanded pattern are identified (the scanner cannot tell them apart)",
    "bounded CFG language equivalence in SMT (z3) across the generated scanner's and the generated tables' terminal numbering", "DESIGN.md §0.2")

PENDING = {}

def main():
    props = [json.loads(l)["id"] for l in open(os.path.join(V, "properties.jsonl"))]
    checks = []
    for pid in props:
        if pid in CHECKS:
            c = CHECKS[pid]
            e = {
                "property_id": pid,
                "quick_cmd": "./check %s --tier quick" % pid,
                "evidence_file": "/verif/evidence/%s.json" % pid,
                "replay_cmd_template": "./check %s --replay {path}" % pid,
                "level_claimed": {"category": c["category"], "text": c["text"], "design_ref": c["ref"]},
                "level_note": c["note"],
                "technique": c["technique"],
            }
            if c["thorough"]:
                e["thorough_cmd"] = "./check %s --tier thorough" % pid
            checks.append(e)
    na = []
    for pid in props:
        if pid in CHECKS:
            continue
        if pid in NA:
            na.append({"property_id": pid, "reason": NA[pid]})
        else:
            na.append({"property_id": pid, "reason": PENDING.get(pid, "check under construction in this round; not claimed until it runs clean on the unchanged tree (see DESIGN.md §4)")})
    hooks_commits = subprocess.run(["git", "-C", "/repo", "log", "--format=%H %s", "--grep=^verif-hook"], capture_output=True, text=True).stdout.strip().splitlines()
    m = {
        "version": 1,
        "setup_cmd": "./setup.sh",
        "hooks": {
            "guard": "cfg(kani)  (set only by `cargo kani`; never by cargo build/test)",
            "enable": "cargo kani (in-crate harness modules under /verif/kani/<crate>/ are included through #[cfg(kani)] #[path=...] mod declarations)",
            "baseline_off_cmd": "cd /repo && cargo nextest run --workspace --no-fail-fast --test-threads 8 --offline || cargo test --workspace --no-fail-fast --offline",
            "source_commits": [l.split()[0] for l in hooks_commits],
            "add_only": True,
        },
        "engines": [
            {"name": "K", "path": "/verif/kani", "kind_free_text": "Kani 0.68 / CBMC 6.11 bounded model checking of the compiled Rust of /repo (in-crate cfg(kani) harness modules + external harness crate)", "serves_properties": sorted(p for p in CHECKS if CHECKS[p]["category"] == "model_checking")},
            {"name": "R", "path": "/verif/engine_r", "kind_free_text": "z3 regular-expression theory over the regexes emitted by the real scanner-config generator", "serves_properties": [p for p in ("C15", "C16") if p in CHECKS]},
            {"name": "G", "path": "/verif/engine_g", "kind_free_text": "bounded context-free language encodings (CYK-style SAT/SMT) regenerated from grammar sources and from the outputs of the real transformations / exported tables", "serves_properties": [p for p in ("C01", "C05", "C06", "C07", "C09", "C10", "C12", "C34") if p in CHECKS]},
        ],
        "checks": checks,
        "not_applicable": na,
        "notes": "Technique family: solver-based checking of the real code. Exit 0 = held within stated bounds; exit 1 + VIOLATION line = reproduced violation; exit 2 = inconclusive (timeout, OOM, non-reproducing counterexample) - never reported as success.",
    }
    json.dump(m, open(os.path.join(V, "MANIFEST.json"), "w"), indent=1)
    print("checks:", [c["property_id"] for c in checks])
    print("n/a:", [n["property_id"] for n in na])

if __name__ == "__main__":
    main()
