#!/bin/bash
# Runs every claimed check's quick (or $1=thorough) command sequentially on the current tree; summary to build/run_all.log
tier=${1:-quick}
cd /verif
ids=$(python3 -c "import json; print(' '.join(c['property_id'] for c in json.load(open('MANIFEST.json'))['checks']))")
: > build/run_all.log
for id in $ids; do
  s=$(date +%s)
  ./check $id --tier $tier > build/$id.$tier.out 2>&1; rc=$?
  e=$(date +%s)
  echo "$id rc=$rc $((e-s))s $(grep -c '^KNOWN-FINDING' build/$id.$tier.out) known $(grep -c '^VIOLATION' build/$id.$tier.out) violations" | tee -a build/run_all.log
done
