#!/bin/bash
# Runs the corpus-dependent checks with several VERIF_SEED values on the current tree (false-alarm hunting).
cd /verif
: > build/seed_sweep.log
for seed in "$@"; do
  for id in C09 C10 C12 C04 C03 C07 C01 C18 C15 C16; do
    s=$(date +%s)
    VERIF_SEED=$seed ./check $id --tier quick > build/$id.seed$seed.out 2>&1; rc=$?
    e=$(date +%s)
    echo "seed=$seed $id rc=$rc $((e-s))s" >> build/seed_sweep.log
  done
done
