"""Seeded generator of small PAR grammars (engine G's `programs` quantifier beyond the fixed corpus).

Families (each grammar is valid PAR text; parol decides whether it is LL(k) / LALR(1) - rejected
ones are skipped and counted):
  ebnf    nested groups / optionals / repetitions with several alternatives, redundant parentheses
          in every alternative position, decorated symbols (^, @name)            -> C09
  prefix  BNF alternatives built from random terminal tries, including alternatives that are a
          proper prefix of the common prefix, and user names that look generated   -> C10
  look    alternatives that need k = 2..4 through different non-terminals          -> C07, C01
  lr      left-recursive / nullable / start-symbol variants for lalr(1), recursive
          references to the start symbol with decorations                          -> C12, C03
  scatter alternatives of one non-terminal written as SEPARATE productions that are not adjacent
          in the text (PAR allows a non-terminal to be defined in several places), for LL(k) and
          lalr(1); start symbol with several such alternatives                      -> C12, C03, C09, C01
"""
import os, random

TERMS = ["a", "b", "c", "d", "e", "f", "g", "h", "i", "j"]


def lit(rnd, t):
    # one spelling per terminal text (parol rejects aliases that expand to the same pattern)
    return ("'%s'" % t) if (ord(t[0]) % 4 == 0) else ('"%s"' % t)


def deco(rnd, nt=False):
    r = rnd.random()
    if r < 0.15:
        return "^"
    if r < 0.25:
        return "@m%d" % rnd.randint(0, 9)
    return ""


class Ebnf:
    def __init__(self, rnd, nts):
        self.rnd = rnd
        self.nts = nts
        self.pool = list(TERMS)
        rnd.shuffle(self.pool)
        self.next = 0

    def fresh(self):
        t = self.pool[self.next % len(self.pool)]
        self.next += 1
        return t

    def seq(self, depth, first_unique=True):
        rnd = self.rnd
        n = rnd.randint(1, 3)
        out = []
        for i in range(n):
            r = rnd.random()
            if i == 0 and first_unique:
                out.append(lit(rnd, self.fresh()) + deco(rnd))
                continue
            if depth > 0 and r < 0.45:
                out.append(self.construct(depth - 1))
            elif r < 0.55 and self.nts:
                out.append(rnd.choice(self.nts) + deco(rnd, True))
            else:
                out.append(lit(rnd, self.fresh()) + deco(rnd))
        return " ".join(out)

    def alts(self, depth, allow_redundant=True):
        rnd = self.rnd
        n = rnd.choice([1, 2, 2, 3])
        parts = []
        for i in range(n):
            s = self.seq(depth)
            if allow_redundant and depth > 0 and rnd.random() < 0.35:
                # redundant parentheses around (part of) an alternative, in any alternative position
                toks = s.split(" ")
                if len(toks) >= 2 and all(x.count("(") == x.count(")") and x.count("[") == x.count("]") and x.count("{") == x.count("}") for x in toks):
                    k = rnd.randint(1, len(toks))
                    s = "( " + " ".join(toks[:k]) + " )" + (" " + " ".join(toks[k:]) if toks[k:] else "")
            parts.append(s)
        return " | ".join(parts)

    def construct(self, depth):
        k = self.rnd.choice("GOR")
        body = self.alts(depth)
        return {"G": "( %s )", "O": "[ %s ]", "R": "{ %s }"}[k] % body


def header(name, lalr=False):
    h = '%%start S\n%%title "%s"\n%%comment "generated"\n' % name
    if lalr:
        h += "%grammar_type 'lalr(1)'\n"
    return h + "%%\n"


def gen_ebnf(rnd, name, lalr=False):
    n_nt = rnd.randint(0, 2)
    nts = ["N%d" % i for i in range(n_nt)]
    e = Ebnf(rnd, nts)
    refs = " ".join("[ %s%s ]" % (n, deco(rnd, True)) if rnd.random() < 0.5 else n for n in nts)
    lines = ["S: " + "( " + e.alts(rnd.randint(1, 3)) + " ) " + refs + " " + lit(rnd, "z") + ";"]
    for nt in nts:
        e2 = Ebnf(rnd, [])
        e2.pool = [t.upper() for t in TERMS]
        rnd.shuffle(e2.pool)
        lines.append("%s: %s;" % (nt, e2.alts(rnd.randint(0, 2))))
    return header(name, lalr) + "\n".join(lines) + "\n"


def gen_prefix(rnd, name):
    """alternatives from a random set of terminal strings with shared prefixes"""
    lines = []
    names = ["S", "T", "SSuffix", "TSuffix0"]
    for idx, nt in enumerate(names[:rnd.randint(1, 3)]):
        alph = TERMS[idx * 3: idx * 3 + 3]
        strings = set()
        base = [rnd.choice(alph) for _ in range(rnd.randint(1, 3))]
        strings.add(tuple(base))
        for _ in range(rnd.randint(1, 4)):
            cut = rnd.randint(0, len(base))
            s = base[:cut] + [rnd.choice(alph) for _ in range(rnd.randint(0, 2))]
            strings.add(tuple(s))
        if rnd.random() < 0.5:
            strings.add(tuple(base[:rnd.randint(0, max(0, len(base) - 1))]))   # proper prefix / empty
        alts = []
        for s in sorted(strings):
            syms = [lit(rnd, t) for t in s]
            if nt == "S" and len(names) > 1 and rnd.random() < 0.3 and idx + 1 < 3:
                syms.append(names[idx + 1])
            alts.append(" ".join(syms))
        lines.append("%s: %s;" % (nt, " | ".join(alts)))
    # make all listed non-terminals reachable
    used = "\n".join(lines)
    extra = [n for n in [l.split(":")[0] for l in lines][1:] if (" " + n) not in used.split("\n")[0] and not any((" " + n + " ") in (x + " ") or x.endswith(" " + n + ";") for x in lines)]
    if extra:
        lines[0] = lines[0][:-1] + " | " + " | ".join('"z" ' + n for n in extra) + ";"
    return header(name) + "\n".join(lines) + "\n"


def gen_look(rnd, name):
    """k >= 2: alternatives of A go through non-terminals that share terminal prefixes"""
    k = rnd.randint(2, 4)
    nalt = rnd.randint(2, 5)
    alph = TERMS[:3]
    seen = set()
    prods = []
    alts = []
    for i in range(nalt):
        pre = tuple(rnd.choice(alph) for _ in range(k - 1))
        tail = TERMS[3 + rnd.randint(0, 2)]
        if (pre, tail) in seen:
            continue
        seen.add((pre, tail))
        if len(pre) >= 2:
            nt = "X%d" % i
            prods.append("%s: %s;" % (nt, " ".join(lit(rnd, t) for t in pre)))
            alts.append("%s %s" % (nt, lit(rnd, tail)))
        else:
            alts.append("%s %s" % (" ".join(lit(rnd, t) for t in pre), lit(rnd, tail)))
    if rnd.random() < 0.4:
        alts.insert(rnd.randint(0, len(alts)), "")
    tail = ' "end"' if rnd.random() < 0.5 else ""
    return header(name) + "S: A%s;\nA: %s;\n%s\n" % (tail, " | ".join(alts), "\n".join(prods))


def gen_lr(rnd, name):
    shape = rnd.randint(0, 5)
    d = rnd.choice(["", "^", "@r"])
    if shape == 0:
        body = 'S: A;\nA: S%s "x" | "y";' % d
    elif shape == 1:
        body = 'S: A;\nA: "a" S%s | "b";' % d
    elif shape == 2:
        body = 'S: S%s "+" T | T;\nT: "n" | "(" S ")";'.replace('"+"', "'+'").replace('"("', "'('").replace('")"', "')'") % d
    elif shape == 3:
        body = 'S: { "a" } [ "b" S%s ];' % d
    elif shape == 4:
        body = 'S: S0;\nS0: S1 S0 | ;\nS1: "a" | "(" S%s ")";'.replace('"("', "'('").replace('")"', "')'") % d
    else:
        e = Ebnf(rnd, [])
        body = "S: L;\nL: L %s | %s;" % (e.seq(1), e.seq(1))
    return header(name, lalr=True) + body + "\n"


def gen_look2(rnd, name):
    """k = 3..4 with alternation non-terminals inside the lookahead window: alternatives of A are
    sequences of slots, a slot is a terminal or a two-way alternation non-terminal; lookahead strings
    of different productions diverge and re-converge at different depths."""
    alph = TERMS[:5]
    nalt = rnd.randint(2, 4)
    klen = rnd.randint(3, 4)
    alt_nts = {}
    alts = []
    for i in range(nalt):
        slots = []
        for j in range(klen):
            if rnd.random() < 0.35:
                a, b = rnd.sample(alph, 2)
                key = tuple(sorted((a, b)))
                nt = alt_nts.setdefault(key, "Y%d" % len(alt_nts))
                slots.append(nt)
            else:
                slots.append(lit(rnd, rnd.choice(alph)))
        alts.append(" ".join(slots))
    prods = ["%s: %s | %s;" % (nt, lit(rnd, k[0]), lit(rnd, k[1])) for k, nt in alt_nts.items()]
    tail = ' "end"' if rnd.random() < 0.5 else ""
    return header(name) + "S: A%s;\nA: %s;\n%s\n" % (tail, " | ".join(alts), "\n".join(prods))


def gen_names(rnd, name, lalr=False):
    """User non-terminals whose names look like parol's helper names (Opt/List/Group/Suffix with and
    without numbers), each containing the construct that makes parol want exactly such a name, plus
    productions with several optionals / repetitions / groups in a row and nested three deep."""
    kinds = ["Opt", "List", "Group"]
    base = rnd.choice(["S", "Item", "X"])
    nts = []
    lines = []
    pool = list(TERMS)
    rnd.shuffle(pool)
    ti = [0]

    def t():
        x = pool[ti[0] % len(pool)]
        ti[0] += 1
        return lit(rnd, x)

    def construct(kind, depth):
        inner = t()
        if depth > 0:
            inner += " " + construct(rnd.choice(kinds), depth - 1)
        if kind == "Opt":
            return "[ %s ]" % inner
        if kind == "List":
            return "{ %s }" % inner
        return "( %s | %s )" % (inner, t())

    for i in range(rnd.randint(1, 3)):
        kind = rnd.choice(kinds)
        num = rnd.choice(["", "0", "1", "2"])
        n = "%s%s%s" % (base, kind, num)
        if n in nts:
            continue
        nts.append(n)
        body = "%s %s %s" % (t(), construct(kind, rnd.randint(0, 2)), rnd.choice(["", t()]))
        lines.append("%s: %s;" % (n, body.strip()))
    # the production of `base` itself: several constructs in a row, the later ones nested
    row = " ".join(construct(rnd.choice(kinds), rnd.randint(0, 2)) for _ in range(rnd.randint(2, 3)))
    refs = " ".join(nts)
    top = "%s: %s %s %s %s;" % (base, t(), row, refs, lit(rnd, "z"))
    start = "S" if base == "S" else "S"
    out = [top] + lines
    if base != "S":
        out.insert(0, "S: %s;" % base)
    return header(name, lalr) + "\n".join(out) + "\n"


def gen_scatter(rnd, name, lalr=False):
    """S and 1..2 helper non-terminals; every alternative starts with its own terminal (so the
    grammar is LL(1) and LALR(1) by construction, unless a recursion variant is chosen); each
    alternative is written as a production of its own and the productions are shuffled."""
    pool = list(TERMS)
    rnd.shuffle(pool)
    nxt = [0]

    def fresh():
        t = pool[nxt[0] % len(pool)]
        nxt[0] += 1
        return lit(rnd, t)

    nts = ["N%d" % i for i in range(rnd.randint(1, 2))]
    prods = []
    n_s = rnd.randint(2, 3)
    recursive = rnd.random() < 0.25
    for i in range(n_s):
        body = [fresh()]
        for _ in range(rnd.randint(0, 2)):
            r = rnd.random()
            body.append(rnd.choice(nts) + deco(rnd, True) if r < 0.5 else fresh())
        if recursive and i == n_s - 1:
            body.append("S" + rnd.choice(["", "^"]))
        prods.append("S: %s;" % " ".join(body))
    for nt in nts:
        for i in range(rnd.randint(1, 3)):
            body = [fresh()] + [fresh() for _ in range(rnd.randint(0, 1))]
            prods.append("%s: %s;" % (nt, " ".join(body)))
        if rnd.random() < 0.2:
            prods.append("%s: ;" % nt)
    # make sure every helper is used (parol rejects unreachable non-terminals)
    text = " ".join(prods)
    for nt in nts:
        if (" " + nt) not in text.replace(nt + ":", ""):
            prods.append("S: %s %s;" % (fresh(), nt))
    mode = rnd.randint(0, 2)
    if mode == 0:
        rnd.shuffle(prods)
    elif mode == 1:
        # first start alternative alone on top, the others at the very end
        s_p = [x for x in prods if x.startswith("S:")]
        o_p = [x for x in prods if not x.startswith("S:")]
        prods = s_p[:1] + o_p + s_p[1:]
    else:
        s_p = [x for x in prods if x.startswith("S:")]
        o_p = [x for x in prods if not x.startswith("S:")]
        rnd.shuffle(o_p)
        prods = o_p[:1] + s_p[:1] + o_p[1:] + s_p[1:]
    return header(name, lalr) + "\n".join(prods) + "\n"


def generate(out_dir, seed, counts):
    """counts: dict family -> n.  Returns list of file paths."""
    os.makedirs(out_dir, exist_ok=True)
    files = []
    fam = {"ebnf": gen_ebnf, "prefix": gen_prefix, "look": gen_look, "lr": gen_lr,
           "ebnf_lr": lambda r, n: gen_ebnf(r, n, lalr=True), "names": gen_names, "look2": gen_look2,
           "names_lr": lambda r, n: gen_names(r, n, lalr=True),
           "scatter": gen_scatter, "scatter_lr": lambda r, n: gen_scatter(r, n, lalr=True)}
    for f, n in counts.items():
        for i in range(n):
            rnd = random.Random("%s-%s-%d" % (seed, f, i))
            name = "gen_%s_%d" % (f, i)
            p = os.path.join(out_dir, name + ".par")
            open(p, "w").write(fam[f](rnd, name))
            files.append(p)
    return files
