"""G-kdec: the strong-LL(k) decision as a solver query over the transformed grammar (C05).

conflict(A, k)  :=  exists two sentences u, v (|u|,|v| <= N), two different productions p, q of A,
                    a parse-tree node of u that applies p at token position i1 and a node of v that
                    applies q at position i2, such that the k upcoming tokens (end of input padded)
                    at i1 in u and at i2 in v are equal.
That is exactly "the k-lookahead sets FIRST_k(rhs . FOLLOW_k(A)) of p and q overlap", witnessed by
derivations of sentences <= N.  Built from the same expression DAGs as G-tab (bounded derivability
`seq_derives`, occurrence predicate `O`), instantiated twice over two disjoint sets of token variables.

A `sat` answer is a constructive witness (two concrete sentences); an `unsat` answer says that no
conflict is witnessed by sentences <= N.  Both directions that can raise an alarm are confirmed by
`ref_lookahead` (exact FIRST_k/FOLLOW_k fix-point on tuples, independent of z3 and of parol) before
anything is reported.
"""
import time
import z3
from .gtab import GTab


class PlainTables:
    """Minimal table object for GTab built from a grammar read by par_reader (terminal keys numbered 1..)."""
    algorithm = "Llk"

    def __init__(self, g):
        self.vocab = {k: i + 1 for i, k in enumerate(g.term_order)}
        self.prods = [(l, [("T", self.vocab[x[1]]) if x[0] == "T" else x for x in rhs]) for l, rhs in g.bnf]
        self.start = g.start
        self.term_ids = sorted(self.vocab.values())
        self.automata = {}
        self.texts = ["%s: %s;" % (l, " ".join(str(x[1]) for x in rhs)) for l, rhs in g.bnf]
        self.term_keys = {v: {"pattern": k[1]} for k, v in self.vocab.items()}


class KDec:
    def __init__(self, tables, N):
        self.T = tables
        self.N = N
        self.G1 = GTab(tables, N, prefix="u")
        self.G2 = GTab(tables, N, prefix="v")
        self._app = {}
        self.solver = z3.Solver()
        self.solver.add(self.G1.dom)
        self.solver.add(self.G2.dom)
        self.queries = 0
        self.solver_s = 0.0

    def applied(self, which, pi, i):
        """production pi is applied at a node starting at position i of sentence `which`"""
        key = (which, pi, i)
        r = self._app.get(key)
        if r is not None:
            return r
        G = self.G1 if which == 1 else self.G2
        A, rhs = self.T.prods[pi]
        alts = []
        for j in range(i, self.N + 1):
            d = G.L.seq_derives(tuple(rhs), i, j)
            if z3.is_false(d):
                continue
            o = G.O(A, i, j)
            if z3.is_false(o):
                continue
            alts.append(z3.And(o, d))
        r = z3.Or(alts) if alts else z3.BoolVal(False)
        self._app[key] = r
        return r

    def conflict_terms(self, A, k, pairs=None):
        ps = [i for i, (l, _) in enumerate(self.T.prods) if l == A]
        out = []
        for a in range(len(ps)):
            for b in range(a + 1, len(ps)):
                p, q = ps[a], ps[b]
                if pairs is not None and (p, q) not in pairs and (q, p) not in pairs:
                    continue
                for i1 in range(self.N + 1):
                    x = self.applied(1, p, i1)
                    if z3.is_false(x):
                        continue
                    for i2 in range(self.N + 1):
                        y = self.applied(2, q, i2)
                        if z3.is_false(y):
                            continue
                        eq = [self.G1.tok(i1 + d) == self.G2.tok(i2 + d) for d in range(k)]
                        out.append(((p, q, i1, i2), z3.And([x, y] + eq)))
        return out

    def conflict(self, A, k, pairs=None, timeout_ms=120000):
        """-> dict(status sat|unsat|unknown, witness...)"""
        t0 = time.time()
        terms = self.conflict_terms(A, k, pairs)
        s = self.solver
        s.set("timeout", timeout_ms)
        s.push()
        s.add(z3.Or([t for _, t in terms]) if terms else z3.BoolVal(False))
        r = s.check()
        res = {"nt": A, "k": k, "status": str(r), "obligations": len(terms)}
        if r == z3.sat:
            m = s.model()
            from . import cfg_sat as C
            u = C.model_tokens(m, self.G1.toks, self.G1.n)
            v = C.model_tokens(m, self.G2.toks, self.G2.n)
            for (p, q, i1, i2), t in terms:
                if z3.is_true(m.eval(t, model_completion=True)):
                    la = tuple((u[i1 + d] if i1 + d < len(u) else 0) for d in range(k))
                    res.update(p=p, q=q, u=u, v=v, i1=i1, i2=i2, lookahead=list(la))
                    break
        elif r != z3.unsat:
            res["reason"] = s.reason_unknown()
        s.pop()
        dt = time.time() - t0
        self.queries += 1
        self.solver_s += dt
        res["solver_s"] = round(dt, 2)
        return res


# --------------------------------------------------------------------------- reference (confirmation only)

class TooBig(Exception):
    pass


def ref_lookahead(prods, start, k, cap=200000):
    """Exact k-lookahead sets per production: trunc_k(FIRST_k(rhs) . FOLLOW_k(lhs)), tuples of length
    exactly k padded with 0 (end of input).  Plain fix-points on Python sets; raises TooBig beyond cap."""
    if k == 0:
        return [set([()]) for _ in prods]
    nts = sorted(set(l for l, _ in prods))
    first = {A: set() for A in nts}

    def cat(S1, S2):
        out = set()
        for a in S1:
            if len(a) >= k:
                out.add(a[:k])
                continue
            for b in S2:
                out.add((a + b)[:k])
            if len(out) > cap:
                raise TooBig()
        return out

    def first_seq(rhs):
        cur = {()}
        for s in rhs:
            nxt = {(s[1],)} if s[0] == "T" else first[s[1]]
            cur = cat(cur, nxt)
            if not cur:
                return cur
            if all(len(t) >= k for t in cur):
                break
        return cur

    changed = True
    while changed:
        changed = False
        for A, rhs in prods:
            f = first_seq(rhs)
            if not f <= first[A]:
                first[A] |= f
                changed = True
    follow = {A: set() for A in nts}
    follow[start].add((0,) * k)
    changed = True
    while changed:
        changed = False
        for A, rhs in prods:
            for r, s in enumerate(rhs):
                if s[0] != "N":
                    continue
                f = cat(first_seq(rhs[r + 1:]), follow[A])
                if not f <= follow[s[1]]:
                    follow[s[1]] |= f
                    changed = True
    return [cat(first_seq(rhs), follow[A]) for A, rhs in prods]


def ref_conflicts(prods, start, A, k):
    """pairs (p, q, common tuples) of productions of A whose exact k-lookahead sets overlap"""
    la = ref_lookahead(prods, start, k)
    ps = [i for i, (l, _) in enumerate(prods) if l == A]
    out = []
    for a in range(len(ps)):
        for b in range(a + 1, len(ps)):
            c = la[ps[a]] & la[ps[b]]
            if c:
                out.append((ps[a], ps[b], sorted(c)[:3]))
    return out
