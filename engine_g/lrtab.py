"""G-LR: validity of a generated LALR(1) parse table against the grammar, for ALL token strings <= N.

The table (actions, gotos, production lengths/lhs) is read from the parser source the real parol
generates.  The LR automaton is unrolled for T steps over symbolic tokens in z3:
   state_t = (stack[0..D), sp, pos, status)     status: 0 running, 1 accepted, 2 error
and compared with bounded derivability in the grammar as written:
   Q1  accepted      and not member   -> table accepts a non-sentence
   Q2  error         and member       -> table rejects a sentence
   Q3  still running after T steps / stack deeper than D  -> bound too small (inconclusive)
"""
import time
import z3
from . import cfg_sat as C


class LRSim:
    def __init__(self, T, N, steps=None, depth=None):
        """T: RsTables of an LALR parser.  Everything is a bit-vector (finite unrolling, bit-blasted)."""
        self.T = T
        self.N = N
        self.steps = steps or (6 * N + 10)
        self.depth = depth or (2 * N + 6)
        self.lalr = T.lalr
        nstates = len(self.lalr["states"])
        ids = T.term_ids or [5]
        self.W = max(8, (max(nstates, max(ids) + 1, self.depth + 2, len(T.lr_prods) + 1, len(T.nts) + 1)).bit_length() + 1)
        W = self.W
        self.bv = lambda v: z3.BitVecVal(v, W)
        self.toks = [z3.BitVec("t%d" % i, W) for i in range(N)]
        self.n = z3.BitVec("t_len", W)
        self.dom = [z3.Or([t == i for i in ids]) for t in self.toks] + [z3.ULE(self.n, N)]
        self.NONE = (1 << W) - 1
        self._build()

    def tok_at(self, pos):
        e = self.bv(0)
        for i in reversed(range(self.N)):
            e = z3.If(z3.And(pos == i, z3.UGT(self.n, i)), self.toks[i], e)
        return e

    def _select(self, stack, idx):
        e = self.bv(self.NONE)
        for d in reversed(range(self.depth)):
            e = z3.If(idx == d, stack[d], e)
        return e

    def _build(self):
        D = self.depth
        bv = self.bv
        NONE = self.NONE
        acts = self.lalr["actions"]
        states = self.lalr["states"]
        prods = self.T.lr_prods     # (lhs index, len)
        stack = [bv(0 if d == 0 else NONE) for d in range(D)]
        sp = bv(1)           # number of entries
        pos = bv(0)
        status = bv(0)
        overflow = z3.BoolVal(False)
        for step in range(self.steps):
            top = self._select(stack, sp - 1)
            tk = self.tok_at(pos)
            kind = bv(3)        # 0 shift, 1 reduce, 2 accept, 3 error
            a1 = bv(0)          # shift target / reduce lhs
            a2 = bv(0)          # reduce production index
            for si in reversed(range(len(states))):
                for (term, ai) in reversed(states[si]["actions"]):
                    a = acts[ai]
                    cond = z3.And(top == si, tk == term)
                    if a[0] == "shift":
                        kind = z3.If(cond, bv(0), kind)
                        a1 = z3.If(cond, bv(a[1]), a1)
                    elif a[0] == "reduce":
                        kind = z3.If(cond, bv(1), kind)
                        a1 = z3.If(cond, bv(a[1]), a1)
                        a2 = z3.If(cond, bv(a[2]), a2)
                    else:
                        kind = z3.If(cond, bv(2), kind)
            plen = bv(0)
            for pi in reversed(range(len(prods))):
                plen = z3.If(a2 == pi, bv(prods[pi][1]), plen)
            sp_r = sp - plen
            under = self._select(stack, sp_r - 1)
            goto = bv(NONE)
            for si in reversed(range(len(states))):
                for (nt, tgt) in reversed(states[si]["gotos"]):
                    goto = z3.If(z3.And(under == si, a1 == nt), bv(tgt), goto)
            running = status == 0
            bad_reduce = z3.Or(goto == NONE, z3.ULT(sp, plen + 1))
            is_shift = z3.And(running, kind == 0)
            is_acc = z3.And(running, kind == 2)
            is_err = z3.And(running, z3.Or(kind == 3, z3.And(kind == 1, bad_reduce)))
            is_reduce_ok = z3.And(running, kind == 1, z3.Not(bad_reduce))
            new_stack = []
            for d in range(D):
                v = stack[d]
                v = z3.If(z3.And(is_shift, sp == d), a1, v)
                v = z3.If(z3.And(is_reduce_ok, sp_r == d), goto, v)
                new_stack.append(v)
            overflow = z3.Or(overflow, z3.And(is_shift, z3.UGE(sp, D)), z3.And(is_reduce_ok, z3.UGE(sp_r, D)))
            sp = z3.If(is_shift, sp + 1, z3.If(is_reduce_ok, sp_r + 1, sp))
            pos = z3.If(is_shift, pos + 1, pos)
            status = z3.If(is_acc, bv(1), z3.If(is_err, bv(2), status))
            stack = new_stack
        self.status = status
        self.overflow = overflow
        self.final_pos = pos

    def check(self, lang_sentence, timeout_ms=600000):
        """lang_sentence: z3 Bool 'tokens[0..n) is a sentence' over the same toks/n."""
        out = {}
        for name, q in (("accepts_non_sentence", z3.And(self.status == 1, z3.Not(lang_sentence))),
                        ("rejects_sentence", z3.And(self.status == 2, lang_sentence)),
                        ("bound_too_small", z3.Or(self.status == 0, self.overflow))):
            s = z3.SolverFor("QF_BV")
            s.set("timeout", timeout_ms)
            s.add(self.dom)
            s.add(q)
            t0 = time.time()
            r = s.check()
            d = {"status": str(r), "solver_s": round(time.time() - t0, 2)}
            if r == z3.sat:
                m = s.model()
                L = m.eval(self.n, model_completion=True).as_long()
                d["witness"] = [m.eval(self.toks[i], model_completion=True).as_long() for i in range(L)]
            elif r != z3.unsat:
                d["reason"] = s.reason_unknown()
            out[name] = d
        return out


def lr_sim_concrete(T, toks, max_steps=100000):
    """Reference LR driver on the extracted table (confirmation of witnesses)."""
    acts, states, prods = T.lalr["actions"], T.lalr["states"], T.lr_prods
    stack = [0]
    pos = 0
    reductions = []
    for _ in range(max_steps):
        tk = toks[pos] if pos < len(toks) else 0
        a = None
        for term, ai in states[stack[-1]]["actions"]:
            if term == tk:
                a = acts[ai]
                break
        if a is None:
            return False, reductions
        if a[0] == "shift":
            stack.append(a[1])
            pos += 1
        elif a[0] == "reduce":
            lhs, p = a[1], a[2]
            n = prods[p][1]
            if n:
                del stack[-n:]
            if not stack:
                return False, reductions
            g = [t for nt, t in states[stack[-1]]["gotos"] if nt == lhs]
            if not g:
                return False, reductions
            stack.append(g[0])
            reductions.append(p)
        else:
            return pos == len(toks), reductions
    return False, reductions
