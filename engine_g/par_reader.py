"""Independent reader for PAR grammar files (parol's input language) - engine G.

Parses the *text* of a .par file (as written by a user, or as rendered by `parol -u/-e`) with a
lark grammar written from the PAR syntax description, NOT with parol's own parser.  Produces an
EBNF AST and a plain BNF expansion with the textbook meaning of groups, optionals, repetitions
and alternations.  AST-control decorations (^, @name, : Type) are parsed and ignored.
"""
import re
from lark import Lark, Transformer, v_args, Token

PAR_GRAMMAR = r"""
start: prolog "%%" production+

prolog: start_decl decl* scanner_state*
start_decl: "%start" IDENT
decl: "%title" STRING                         -> d_ignore
    | "%comment" STRING                       -> d_ignore
    | "%user_type" IDENT "=" user_type_name   -> d_ignore
    | "%nt_type" IDENT "=" user_type_name     -> d_ignore
    | "%t_type" user_type_name                -> d_ignore
    | "%grammar_type" (RAW | STRING)          -> d_grammar_type
    | scanner_directive                       -> d_scanner

scanner_directive: "%line_comment" token_literal               -> sd_line_comment
    | "%block_comment" token_literal token_literal             -> sd_block_comment
    | "%auto_newline_off"                                      -> sd_auto_nl_off
    | "%auto_ws_off"                                           -> sd_auto_ws_off
    | "%skip" ident_list                                       -> sd_skip
    | "%on" ident_list scanner_switch                          -> sd_on
    | "%allow_unmatched"                                       -> sd_allow_unmatched
scanner_switch: "%enter" IDENT | "%push" IDENT | "%pop"
scanner_state: "%scanner" IDENT "{" scanner_directive* "}"

production: IDENT ":" alternations ";"
alternations: alternation ("|" alternation)*
alternation: factor*
?factor: group | repeat | optional | symbol
group: "(" alternations ")"
optional: "[" alternations "]"
repeat: "{" alternations "}"
?symbol: non_terminal | simple_token | token_with_states
non_terminal: IDENT ast_control?
simple_token: token_expression ast_control?
token_with_states: "<" ident_list ">" token_expression ast_control?
token_expression: token_literal look_ahead?
token_literal: STRING | RAW | REGEX
look_ahead: LA_OP token_literal
LA_OP: "?=" | "?!"
ast_control: CUT | member_name user_type_decl? | user_type_decl
CUT: "^"
member_name: "@" IDENT
user_type_decl: ":" user_type_name
user_type_name: IDENT ("::" IDENT)*
ident_list: IDENT ("," IDENT)*

IDENT: /[a-zA-Z_][a-zA-Z0-9_]*/
STRING: /"(\\.|[^"])*"/
RAW: /'(\\.|[^'])*'/
REGEX: /\/(\\.|[^\/])*\//

LINE_COMMENT.3: /\/\/[^\n]*/
BLOCK_COMMENT.3: /\/\*(.|\n)*?\*\//
%import common.WS
%ignore WS
%ignore LINE_COMMENT
%ignore BLOCK_COMMENT
"""

_parser = None


def _get_parser():
    global _parser
    if _parser is None:
        _parser = Lark(PAR_GRAMMAR, parser="lalr", lexer="contextual", maybe_placeholders=False)
    return _parser


class Term:
    """A terminal occurrence; identity as parol defines it: (text, kind, lookahead)."""
    __slots__ = ("kind", "text", "la", "states")

    def __init__(self, kind, text, la=None, states=()):
        self.kind, self.text, self.la, self.states = kind, text, la, tuple(states)

    def key(self):
        return (self.kind, self.text, self.la)

    def __repr__(self):
        q = {"str": '"', "raw": "'", "re": "/"}[self.kind]
        s = q + self.text + q
        if self.la:
            s += " " + self.la[0] + " " + repr(self.la[1])
        return s


def _lit(tok):
    s = str(tok)
    kind = {'"': "str", "'": "raw", "/": "re"}[s[0]]
    return kind, s[1:-1]


@v_args(inline=False)
class _Build(Transformer):
    def token_literal(self, c):
        return ("lit",) + _lit(c[0])

    def look_ahead(self, c):
        return ("la", str(c[0]), (c[1][1], c[1][2]))

    def token_expression(self, c):
        la = None
        if len(c) > 1:
            la = (c[1][1], c[1][2])
        return ("T", Term(c[0][1], c[0][2], la))

    def simple_token(self, c):
        deco = c[1] if len(c) > 1 and isinstance(c[1], str) else ""
        return ("T", c[0][1], deco)

    def token_with_states(self, c):
        t = c[1][1]
        t.states = tuple(c[0])
        deco = c[2] if len(c) > 2 and isinstance(c[2], str) else ""
        return ("T", t, deco)

    def ident_list(self, c):
        return [str(x) for x in c]

    def non_terminal(self, c):
        deco = c[1] if len(c) > 1 and isinstance(c[1], str) else ""
        return ("N", str(c[0]), deco)

    def ast_control(self, c):
        # canonical text of the AST-control decoration (kept only for structural comparisons)
        return "".join(str(x) for x in c if x is not None) or ""

    def member_name(self, c):
        return "@" + str(c[0])

    def user_type_decl(self, c):
        return ":" + str(c[0])

    def user_type_name(self, c):
        return "::".join(str(x) for x in c)

    def group(self, c):
        return ("G", c[0])

    def optional(self, c):
        return ("O", c[0])

    def repeat(self, c):
        return ("R", c[0])

    def alternation(self, c):
        return [x for x in c if x is not None]

    def alternations(self, c):
        return list(c)

    def production(self, c):
        return ("P", str(c[0]), c[1])

    def start_decl(self, c):
        return ("start", str(c[0]))

    def d_ignore(self, c):
        return None

    def d_grammar_type(self, c):
        return ("grammar_type", str(c[0])[1:-1])

    def d_scanner(self, c):
        return ("scanner_directive", c[0])

    def sd_line_comment(self, c):
        return ("line_comment", c[0][1:])

    def sd_block_comment(self, c):
        return ("block_comment", c[0][1:], c[1][1:])

    def sd_auto_nl_off(self, c):
        return ("auto_newline_off",)

    def sd_auto_ws_off(self, c):
        return ("auto_ws_off",)

    def sd_skip(self, c):
        return ("skip", c[0])

    def sd_on(self, c):
        return ("on", c[0], c[1])

    def sd_allow_unmatched(self, c):
        return ("allow_unmatched",)

    def scanner_switch(self, c):
        return tuple(str(x) for x in c) if c else ("pop",)

    def scanner_state(self, c):
        return ("scanner_state", str(c[0]), [x for x in c[1:]])

    def prolog(self, c):
        return [x for x in c if x is not None]

    def start(self, c):
        return {"prolog": c[0], "productions": [x for x in c[1:]]}


class Grammar:
    """EBNF productions + BNF expansion."""

    def __init__(self, text):
        tree = _get_parser().parse(text)
        d = _Build().transform(tree)
        self.start = None
        self.grammar_type = "ll(k)"
        self.directives = []
        self.scanner_states = []
        for item in d["prolog"]:
            if item[0] == "start":
                self.start = item[1]
            elif item[0] == "grammar_type":
                self.grammar_type = item[1].lower()
            elif item[0] == "scanner_directive":
                self.directives.append(item[1])
            elif item[0] == "scanner_state":
                self.scanner_states.append(item)
        self.ebnf = [(p[1], p[2]) for p in d["productions"]]   # (lhs, alternations)
        self.user_nts = []
        for lhs, _ in self.ebnf:
            if lhs not in self.user_nts:
                self.user_nts.append(lhs)
        self._expand()

    def is_lalr(self):
        return "lalr" in self.grammar_type

    # -- textbook EBNF -> BNF
    def _expand(self):
        self.bnf = []           # list of (lhs, [sym]) ; sym = ("T", key) | ("N", name)
        self.bnf_deco = []      # decorations (^, @name, :Type) per symbol, aligned with self.bnf
        self.terms = {}         # key -> Term (first occurrence)
        self.term_order = []
        self._fresh = 0
        used = set(self.user_nts)

        def fresh(base, kind):
            while True:
                self._fresh += 1
                n = "%s__%s%d" % (base, kind, self._fresh)
                if n not in used:
                    used.add(n)
                    return n

        def seq(lhs, alt, deco_out=None):
            out = []
            for f in alt:
                if deco_out is not None:
                    deco_out.append(f[2] if len(f) > 2 else "")
                if f[0] == "T":
                    k = f[1].key()
                    if k not in self.terms:
                        self.terms[k] = f[1]
                        self.term_order.append(k)
                    out.append(("T", k))
                elif f[0] == "N":
                    out.append(("N", f[1]))
                elif f[0] == "G":
                    n = fresh(lhs, "g")
                    for a in f[1]:
                        self.bnf.append((n, seq(n, a)))
                    out.append(("N", n))
                elif f[0] == "O":
                    n = fresh(lhs, "o")
                    for a in f[1]:
                        self.bnf.append((n, seq(n, a)))
                    self.bnf.append((n, []))
                    out.append(("N", n))
                elif f[0] == "R":
                    n = fresh(lhs, "r")
                    body = fresh(lhs, "rb")
                    for a in f[1]:
                        self.bnf.append((body, seq(body, a)))
                    self.bnf.append((n, [("N", body), ("N", n)]))
                    self.bnf.append((n, []))
                    out.append(("N", n))
            return out

        for lhs, alts in self.ebnf:
            for a in alts:
                d = []
                self.bnf.append((lhs, seq(lhs, a, d)))
                self.bnf_deco.append(d)

    def is_plain_bnf(self):
        return all(f[0] in ("T", "N") for _, alts in self.ebnf for a in alts for f in a)

    def plain_productions(self):
        """Productions in file order for files that are already plain BNF (parol -u/-e output)."""
        assert self.is_plain_bnf()
        return list(self.bnf)


def read_par(path):
    return Grammar(open(path, encoding="utf-8").read())
