"""G-tab: validity of exported LL(k) tables against the exported grammar, for ALL sentences <= N.

Input: the JSON written by the real `parol export` (productions + minimised lookahead automata).
Encoding (z3, expression DAG over the token variables only):
  D / seq      bounded derivability on the exported productions           (cfg_sat.Lang)
  O[A,i,j]     "some parse tree of the sentence has an A-node over toks[i..j)"
  pred_A(i)    the production the exported automaton of A predicts on toks[i..] (EOI padded,
               at most the automaton's declared k tokens) or -1
Query  exists sentence w (|w|<=N), production p: A -> alpha, span (i,j):
          O[A,i,j] and alpha =>* toks[i..j) and pred_A(i) != p
unsat  <=> a predictive parser driven by these tables chooses the right production at every node
           of every parse tree of every sentence of length <= N.
"""
import json, time
import z3
from . import cfg_sat as C


class Tables:
    def __init__(self, path):
        d = json.load(open(path))
        self.raw = d
        self.algorithm = d["algorithm"]
        self.nts = d["non_terminal_names"]
        self.start = self.nts[d["start_symbol_index"]]
        self.prods = []
        for p in d["productions"]:
            rhs = []
            for s in p["rhs"]:
                if "Terminal" in s:
                    rhs.append(("T", s["Terminal"]["index"]))
                else:
                    rhs.append(("N", self.nts[s["NonTerminal"]]))
            self.prods.append((self.nts[p["lhs_index"]], rhs))
        self.texts = [p.get("text", "") for p in d["productions"]]
        self.automata = {}
        for a in d.get("lookahead_automata") or []:
            self.automata[a["non_terminal_name"]] = {
                "prod0": a["prod0"], "k": a["k"],
                "trans": [(t["from_state"], t["term"], t["to_state"], t["prod_num"]) for t in a["transitions"]],
            }
        self.term_keys = {}
        kinds = {"Legacy": "str", "Raw": "raw", "Regex": "re"}
        for t in d["scanner"]["terminals"]:
            la = None
            if t.get("lookahead"):
                la = t["lookahead"]
            self.term_keys[t["index"]] = {"kind": kinds.get(t["kind"], t["kind"]), "pattern": t["pattern"], "lookahead": la,
                                          "expanded": t.get("expanded_pattern")}
        self.term_ids = sorted(self.term_keys)
        self.lalr = d.get("lalr_parse_table")

    # ---- structural contract of the exported automata (also the contract assumed by C08's symbolic table)
    def structure_issues(self):
        issues = []
        for nt, a in self.automata.items():
            tr = a["trans"]
            lhs_prods = [i for i, (l, _) in enumerate(self.prods) if l == nt]
            if a["prod0"] != -1:
                if tr:
                    issues.append("%s: prod0 valid but automaton has transitions" % nt)
                if a["prod0"] not in lhs_prods:
                    issues.append("%s: prod0 %d is not a production of %s" % (nt, a["prod0"], nt))
            elif not tr:
                issues.append("%s: no prod0 and no transitions" % nt)
            for i, t in enumerate(tr):
                if i + 1 < len(tr) and not ((t[0], t[1]) < (tr[i + 1][0], tr[i + 1][1])):
                    issues.append("%s: transitions not strictly sorted by (from, term) at %d" % (nt, i))
                if t[3] != -1:
                    if t[3] not in lhs_prods:
                        issues.append("%s: transition predicts production %d which is not a production of %s" % (nt, t[3], nt))
                    if any(u[0] == t[2] for u in tr):
                        issues.append("%s: accepting state %d has successors" % (nt, t[2]))
                if t[1] != 0 and t[1] not in self.term_keys:
                    issues.append("%s: transition on unknown terminal %d" % (nt, t[1]))
            # depth <= k, acyclic
            depth = {0: 0}
            changed, rounds = True, 0
            while changed and rounds < 64:
                changed = False
                rounds += 1
                for t in tr:
                    if t[0] in depth and depth.get(t[2], -1) < depth[t[0]] + 1:
                        depth[t[2]] = depth[t[0]] + 1
                        changed = True
            if rounds >= 64:
                issues.append("%s: automaton has a cycle" % nt)
            elif tr and max(depth.values()) > a["k"]:
                issues.append("%s: automaton depth %d exceeds its declared k=%d" % (nt, max(depth.values()), a["k"]))
            states = set([0] + [t[0] for t in tr] + [t[2] for t in tr])
            if states != set(range(len(states))):
                issues.append("%s: state numbers are not dense" % nt)
            unreachable = [t for t in tr if t[0] not in depth]
            if unreachable:
                issues.append("%s: unreachable transitions" % nt)
        for nt in self.nts:
            if nt not in self.automata and self.algorithm == "Llk":
                issues.append("%s: no lookahead automaton exported" % nt)
        return issues

    def accepting_paths(self, nt, limit=4000):
        a = self.automata[nt]
        out = []
        if a["prod0"] != -1:
            out.append(((), a["prod0"]))
        stack = [(0, ())]
        maxlen = max(a["k"], 1) + 2          # a broken (cyclic) automaton must not make this loop forever
        while stack and len(out) < limit:
            s, w = stack.pop()
            if len(w) > maxlen:
                continue
            for t in a["trans"]:
                if t[0] == s:
                    if t[3] != -1:
                        out.append((w + (t[1],), t[3]))
                    else:
                        stack.append((t[2], w + (t[1],)))
        return out


class GTab:
    def __init__(self, tables, N, prefix="t"):
        self.T = tables
        self.N = N
        ids = tables.term_ids or [5]
        self.toks = [z3.Int("%s%d" % (prefix, i)) for i in range(N)]
        self.n = z3.Int("%s_len" % prefix)
        self.dom = [z3.Or([t == i for i in ids]) for t in self.toks] + [self.n >= 0, self.n <= N]
        vi = {i: i for i in ids}
        self.L = C.Lang(tables.prods, tables.start, vi, self.toks, self.n, N)
        self._o = {}
        self._busy = set()
        self._pred = {}
        self.occ = {}
        for qi, (lhs, rhs) in enumerate(tables.prods):
            for r, s in enumerate(rhs):
                if s[0] == "N":
                    self.occ.setdefault(s[1], []).append((lhs, tuple(rhs[:r]), tuple(rhs[r + 1:])))

    def tok(self, x):
        if x >= self.N:
            return z3.IntVal(0)
        return z3.If(self.n > x, self.toks[x], z3.IntVal(0))

    def O(self, A, i, j):
        key = (A, i, j)
        r = self._o.get(key)
        if r is not None:
            return r
        if key in self._busy:
            raise RuntimeError("cyclic same-span dependency at %r (grammar has a derivation A =>+ A)" % (key,))
        self._busy.add(key)
        alts = []
        if A == self.T.start and i == 0:
            alts.append(self.n == j)
        for (B, pre, suf) in self.occ.get(A, ()):
            for i2 in range(0, i + 1):
                x = self.L.seq_derives(pre, i2, i)
                if z3.is_false(x):
                    continue
                for j2 in range(j, self.N + 1):
                    y = self.L.seq_derives(suf, j, j2)
                    if z3.is_false(y):
                        continue
                    o = self.O(B, i2, j2)
                    if z3.is_false(o):
                        continue
                    alts.append(z3.And(o, x, y))
        r = z3.Or(alts) if alts else z3.BoolVal(False)
        self._busy.discard(key)
        self._o[key] = r
        return r

    def pred(self, A, i):
        key = (A, i)
        r = self._pred.get(key)
        if r is not None:
            return r
        a = self.T.automata[A]
        memo = {}

        def walk(state, pos, depth):
            """production predicted when standing in `state` having read `depth` tokens (-1 = error)"""
            k2 = (state, depth)
            if k2 in memo:
                return memo[k2]
            res = z3.IntVal(-1)
            if depth < a["k"]:
                outs = [t for t in a["trans"] if t[0] == state]
                for t in reversed(outs):
                    tgt = z3.IntVal(t[3]) if t[3] != -1 else walk(t[2], pos + 1, depth + 1)
                    res = z3.If(self.tok(pos) == t[1], tgt, res)
            memo[k2] = res
            return res

        if a["prod0"] != -1:
            r = z3.IntVal(a["prod0"])
        else:
            r = walk(0, i, 0)
        self._pred[key] = r
        return r

    def violation_terms(self):
        """list of (description, z3 Bool) - one per (production, span)."""
        out = []
        for pi, (A, rhs) in enumerate(self.T.prods):
            for i in range(0, self.N + 1):
                pr = None
                for j in range(i, self.N + 1):
                    d = self.L.seq_derives(tuple(rhs), i, j)
                    if z3.is_false(d):
                        continue
                    o = self.O(A, i, j)
                    if z3.is_false(o):
                        continue
                    if pr is None:
                        pr = self.pred(A, i)
                    out.append(((pi, i, j), z3.And(o, d, pr != pi)))
        return out

    def check_completeness(self, timeout_ms=600000):
        t0 = time.time()
        terms = self.violation_terms()
        enc = time.time() - t0
        s = z3.Solver()
        s.set("timeout", timeout_ms)
        s.add(self.dom)
        s.add(z3.Or([t for _, t in terms]) if terms else z3.BoolVal(False))
        t1 = time.time()
        r = s.check()
        dt = time.time() - t1
        res = {"status": str(r), "encode_s": round(enc, 2), "solver_s": round(dt, 2), "obligations": len(terms)}
        if r == z3.sat:
            m = s.model()
            w = C.model_tokens(m, self.toks, self.n)
            res["witness"] = w
            for (pi, i, j), t in terms:
                if z3.is_true(m.eval(t, model_completion=True)):
                    A = self.T.prods[pi][0]
                    res["production"] = pi
                    res["production_text"] = self.T.texts[pi]
                    res["span"] = (i, j)
                    res["predicted"] = m.eval(self.pred(A, i), model_completion=True).as_long()
                    break
        elif r != z3.unsat:
            res["reason"] = s.reason_unknown()
        return res

    def check_exactness(self, timeout_ms=20000, max_paths=400):
        """For every accepting path (w -> p) of every automaton: is there a sentence <= N in which p
        is applied with exactly these upcoming tokens?  Returns (justified, unjustified list)."""
        s = z3.Solver()
        s.set("timeout", timeout_ms)
        s.add(self.dom)
        justified, unjust, unknown = 0, [], 0
        total = 0
        for A in self.T.automata:
            for (w, p) in self.T.accepting_paths(A):
                total += 1
                if total > max_paths:
                    break
                if self.T.prods[p][0] != A:
                    unjust.append({"nt": A, "path": list(w), "prod": p, "why": "production of another non-terminal"})
                    continue
                rhs = tuple(self.T.prods[p][1])
                alts = []
                for i in range(0, self.N + 1):
                    la = z3.And([self.tok(i + x) == w[x] for x in range(len(w))]) if w else z3.BoolVal(True)
                    for j in range(i, self.N + 1):
                        d = self.L.seq_derives(rhs, i, j)
                        if z3.is_false(d):
                            continue
                        o = self.O(A, i, j)
                        if z3.is_false(o):
                            continue
                        alts.append(z3.And(o, d, la))
                s.push()
                s.add(z3.Or(alts) if alts else z3.BoolVal(False))
                r = s.check()
                s.pop()
                if r == z3.sat:
                    justified += 1
                elif r == z3.unsat:
                    unjust.append({"nt": A, "path": list(w), "prod": p, "why": "no sentence <= N applies this production with this lookahead"})
                else:
                    unknown += 1
        return {"paths": total, "justified": justified, "unjustified": unjust, "unknown": unknown}
