"""Engine G pipeline: run the real parol on a grammar, collect the artifacts, compare languages."""
import os, json, glob, shutil, time, hashlib, subprocess, concurrent.futures as cf
import z3
from lib.common import sh, BUILD, REPO, VERIF, log
from .par_reader import read_par, Grammar
from . import cfg_sat as C

GEN = os.path.join(BUILD, "gen")


def corpus(kind="all", generated=True):
    """Grammar corpus: every .par under /repo (examples, crates, test data) + /verif/grammars +
    a seeded family of generated grammars (engine_g/gramgen.py; VERIF_SEED selects the family)."""
    files = []
    for root in (os.path.join(REPO, "examples"), os.path.join(REPO, "crates"), os.path.join(VERIF, "grammars")):
        for f in glob.glob(os.path.join(root, "**", "*.par"), recursive=True):
            if "/target/" in f or "-exp.par" in f or "/actual/" in f:
                continue
            files.append(f)
    files = sorted(set(files))
    if generated:
        from . import gramgen
        from lib.common import seed, tier
        n = 40 if tier() == "quick" else 150
        d = os.path.join(BUILD, "gen", "gram", "s%d_%s" % (seed(), tier()))
        files += gramgen.generate(d, seed(), {"ebnf": n, "prefix": n, "look": n, "lr": n // 2, "ebnf_lr": n // 2, "names": n, "names_lr": n // 4, "look2": 2 * n,
                                                 "scatter": n // 2, "scatter_lr": n // 2})
    return files


def gid(path):
    return hashlib.sha1(path.encode()).hexdigest()[:10] + "_" + os.path.splitext(os.path.basename(path))[0]


def run_parol(parol, gpath, k=5, want_parser=True):
    """Runs the real generator on one grammar.  Returns dict with artifact paths (or error)."""
    d = os.path.join(GEN, gid(gpath) + "_k%d" % k)
    if os.path.exists(d):
        shutil.rmtree(d)
    os.makedirs(d)
    res = {"grammar": gpath, "dir": d, "k": k}
    cmd = [parol, "-f", gpath, "-k", str(k), "-u", os.path.join(d, "u.par"), "-e", os.path.join(d, "e.par"), "-q"]
    if want_parser:
        cmd += ["-p", os.path.join(d, "parser.rs"), "-a", os.path.join(d, "actions.rs"), "-t", "G", "-m", "g"]
    rc, out = sh(cmd, cwd=d, timeout=300)
    res["rc"] = rc
    res["out"] = out[-2000:]
    res["u"] = os.path.join(d, "u.par") if os.path.exists(os.path.join(d, "u.par")) else None
    res["e"] = os.path.join(d, "e.par") if os.path.exists(os.path.join(d, "e.par")) else None
    res["parser"] = os.path.join(d, "parser.rs") if os.path.exists(os.path.join(d, "parser.rs")) else None
    if rc == 0:
        rc2, out2 = sh([parol, "export", "-f", gpath, "-k", str(k), "-o", os.path.join(d, "export.json")], cwd=d, timeout=300)
        if rc2 == 0 and os.path.exists(os.path.join(d, "export.json")):
            res["export"] = os.path.join(d, "export.json")
        else:
            res["export_err"] = out2[-1000:]
    return res


def run_corpus(parol, files, k=5, jobs=12, want_parser=False):
    with cf.ThreadPoolExecutor(max_workers=jobs) as ex:
        return list(ex.map(lambda f: run_parol(parol, f, k, want_parser), files))


# ----------------------------------------------------------------------------- language comparison

def union_vocab(*grammars):
    order = []
    for g in grammars:
        for k in g.term_order:
            if k not in order:
                order.append(k)
    return {k: i + 1 for i, k in enumerate(order)}


def lang_diff(p1, s1, p2, s2, vocab, N, timeout_ms=120000, also_nts=(), cross=None):
    """Returns ('unsat', None) if L_N equal, ('sat', tokens) with a distinguishing string,
    ('unknown', reason) otherwise.  Also returns solver time.
    also_nts: non-terminals (present in both grammars) whose own languages are compared as well;
    a difference is returned as ('sat', tokens, nt)."""
    toks, n, dom = C.token_vars(N, max(1, len(vocab)))
    L1 = C.Lang(p1, s1, vocab, toks, n, N)
    L2 = C.Lang(p2, s2, vocab, toks, n, N)
    s = z3.Solver()
    s.set("timeout", timeout_ms)
    s.add(dom)
    t0 = time.time()
    for nt in [None] + list(also_nts):
        s.push()
        s.add(z3.Xor(L1.sentence(nt or s1), L2.sentence(nt or s2)))
        r = s.check()
        if cross is not None and nt is None and r in (z3.sat, z3.unsat):
            cross.update(crosscheck(s, str(r), cross.get("tag", "q")))
        if r == z3.sat:
            w = C.model_tokens(s.model(), toks, n)
            return "sat", (w if nt is None else (w, nt)), time.time() - t0
        if r != z3.unsat:
            return "unknown", s.reason_unknown(), time.time() - t0
        s.pop()
    return "unsat", None, time.time() - t0


def crosscheck(solver, expect, tag, timeout=180):
    """Second opinion on a query: dump it as SMT-LIB2 and ask cvc5 and the system z3 4.8.12.
    Returns dict solver -> verdict ('(error' lines or time-outs count as inconclusive)."""
    d = os.path.join(BUILD, "smt")
    os.makedirs(d, exist_ok=True)
    f = os.path.join(d, "%s.smt2" % tag)
    open(f, "w").write("(set-logic ALL)\n" + solver.to_smt2())
    out = {}
    for name, cmd in (("cvc5", ["cvc5", "--lang", "smt2", f]), ("z3-4.8.12", ["/usr/bin/z3", f])):
        rc, o = sh(cmd, timeout=timeout)
        v = o.strip().splitlines()[0] if o.strip() else "no output"
        if "(error" in o or rc == 124:
            v = "inconclusive"
        out[name] = v
    out["agree"] = all(v == expect for k, v in out.items() if k != "agree" and v in ("sat", "unsat"))
    return out


def render_tokens(vocab, toks):
    inv = {v: k for k, v in vocab.items()}
    return [repr_key(inv[t]) for t in toks]


def repr_key(k):
    q = {"str": '"', "raw": "'", "re": "/"}[k[0]]
    s = q + k[1] + q
    if k[2]:
        s += " %s %s" % (k[2][0], k[2][1])
    return s


def member_brute(prods, start, vocab, toks):
    """Independent membership test (leftmost-derivation search, no normal form)."""
    N = len(toks)
    sents = C.enumerate_sentences(prods, start, vocab, N) if N <= 6 else None
    if sents is not None:
        return tuple(toks) in sents
    return C.derives_brute(prods, start, vocab, toks)


# ----------------------------------------------------------------------------- cached corpus runs

def _bin_id(parol):
    h = hashlib.sha1()
    with open(parol, "rb") as f:
        while True:
            b = f.read(1 << 20)
            if not b:
                break
            h.update(b)
    return h.hexdigest()[:16]


def artifacts(parol, files, k=5, jobs=14, want_parser=False, per_grammar_timeout=90):
    """Runs the real generator (binary built from /repo's current tree) on the given grammars.
    Results are cached per (binary content hash, grammar content hash, k): a changed generator or
    grammar always re-runs."""
    bid = _bin_id(parol)
    cache_dir = os.path.join(BUILD, "gen-cache", bid)
    os.makedirs(cache_dir, exist_ok=True)
    out = [None] * len(files)

    def one(i):
        f = files[i]
        gh = hashlib.sha1(open(f, "rb").read()).hexdigest()[:12]
        d = os.path.join(cache_dir, "%s_%s_k%d%s" % (os.path.splitext(os.path.basename(f))[0], gh, k, "_p" if want_parser else ""))
        meta = os.path.join(d, "meta.json")
        if os.path.exists(meta):
            return json.load(open(meta))
        if os.path.exists(d):
            shutil.rmtree(d)
        os.makedirs(d)
        res = {"grammar": f, "dir": d, "k": k}
        cmd = [parol, "-f", f, "-k", str(k), "-u", os.path.join(d, "u.par"), "-e", os.path.join(d, "e.par"), "-q"]
        if want_parser:
            cmd += ["-p", os.path.join(d, "parser.rs"), "-a", os.path.join(d, "actions.rs"), "-t", "G", "-m", "g"]
        t0 = time.time()
        rc, o = sh(cmd, cwd=d, timeout=per_grammar_timeout)
        res["rc"] = rc
        res["out"] = o[-1500:]
        res["resolved_conflicts"] = o.count("resolved by")
        for nm in ("u.par", "e.par", "parser.rs"):
            p = os.path.join(d, nm)
            res[nm.split(".")[0]] = p if os.path.exists(p) else None
        if rc == 0:
            rc2, o2 = sh([parol, "export", "-f", f, "-k", str(k), "-o", os.path.join(d, "export.json")], cwd=d, timeout=per_grammar_timeout)
            if rc2 == 0 and os.path.exists(os.path.join(d, "export.json")):
                res["export"] = os.path.join(d, "export.json")
            else:
                res["export_err"] = ("timeout" if rc2 == 124 else o2[-800:])
        res["gen_s"] = round(time.time() - t0, 2)
        json.dump(res, open(meta, "w"))
        return res

    with cf.ThreadPoolExecutor(max_workers=jobs) as ex:
        for i, r in zip(range(len(files)), ex.map(one, range(len(files)))):
            out[i] = r
    # drop caches of other binaries (disk hygiene)
    for other in os.listdir(os.path.join(BUILD, "gen-cache")):
        if other != bid:
            shutil.rmtree(os.path.join(BUILD, "gen-cache", other), ignore_errors=True)
    return out
