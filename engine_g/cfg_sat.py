"""Bounded context-free language encodings for z3 (engine G).

A grammar is a list of productions (lhs, [sym]) with sym = ("T", key) | ("N", name).
`Lang(grammar, start, vocab, toks, n)` builds, over symbolic token variables toks[0..N) and the
symbolic length n, z3 Boolean terms
   derives(A, i, j)       "A =>* toks[i..j)"                      (exact, no free auxiliaries)
   seq_derives(rhs, i, j) "rhs =>* toks[i..j)"
   sentence()             "toks[0..n) in L(start)"
The terms are plain expression DAGs over the token variables (memoised recursion), so they have
exactly one value per token assignment: no fix-point subtleties, sat/unsat is exact within N.

Internally every non-terminal's non-empty language is computed on a normal form without epsilon
and unit productions (so recursion on span length is well founded); nullability is a constant.
"""
import itertools
import z3


class NormalForm:
    """2NF + epsilon/unit elimination.  Keeps original non-terminal names (language of every
    original non-terminal minus epsilon is preserved)."""

    def __init__(self, prods):
        self.orig = [(l, list(r)) for l, r in prods]
        self.nts = []
        for l, r in self.orig:
            if l not in self.nts:
                self.nts.append(l)
        for l, r in self.orig:
            for s in r:
                if s[0] == "N" and s[1] not in self.nts:
                    self.nts.append(s[1])       # undefined non-terminal: empty language
        self._nullable()
        self._binarize()
        self._eliminate()

    def _nullable(self):
        nl = set()
        ch = True
        while ch:
            ch = False
            for l, r in self.orig:
                if l not in nl and all(s[0] == "N" and s[1] in nl for s in r):
                    nl.add(l)
                    ch = True
        self.nullable = nl

    def _binarize(self):
        self.bin = []   # (lhs, [sym]) with len(rhs) <= 2
        cnt = 0
        for l, r in self.orig:
            cur = l
            rest = list(r)
            while len(rest) > 2:
                cnt += 1
                n = "$b%d" % cnt
                self.bin.append((cur, [rest[0], ("N", n)]))
                cur = n
                rest = rest[1:]
            self.bin.append((cur, rest))
        # nullable for helper non-terminals
        ch = True
        while ch:
            ch = False
            for l, r in self.bin:
                if l not in self.nullable and all(s[0] == "N" and s[1] in self.nullable for s in r):
                    self.nullable.add(l)
                    ch = True

    def _eliminate(self):
        nl = self.nullable
        # epsilon elimination on <=2 rhs
        prods = set()
        for l, r in self.bin:
            if len(r) == 0:
                continue
            if len(r) == 1:
                prods.add((l, (r[0],)))
            else:
                a, b = r
                prods.add((l, (a, b)))
                if a[0] == "N" and a[1] in nl:
                    prods.add((l, (b,)))
                if b[0] == "N" and b[1] in nl:
                    prods.add((l, (a,)))
        # unit closure
        names = set(l for l, _ in prods) | set(s[1] for _, r in prods for s in r if s[0] == "N")
        unit = {a: {a} for a in names}
        ch = True
        while ch:
            ch = False
            for l, r in prods:
                if len(r) == 1 and r[0][0] == "N":
                    for a in names:
                        if l in unit[a] and r[0][1] not in unit[a]:
                            unit[a].add(r[0][1])
                            ch = True
        self.term_rules = {}   # A -> set(term key)
        self.bin_rules = {}    # A -> set((sym, sym))
        for a in names:
            for b in unit[a]:
                for l, r in prods:
                    if l != b:
                        continue
                    if len(r) == 1 and r[0][0] == "T":
                        self.term_rules.setdefault(a, set()).add(r[0][1])
                    elif len(r) == 2:
                        self.bin_rules.setdefault(a, set()).add(r)


class Lang:
    def __init__(self, prods, start, vocab_index, toks, n, N):
        """vocab_index: term key -> int id used in the token variables (ids > 0; 0 = EOI)."""
        self.prods = prods
        self.start = start
        self.nf = NormalForm(prods)
        self.vi = vocab_index
        self.toks = toks
        self.n = n
        self.N = N
        self._d = {}
        self._s = {}

    def _sym(self, s, i, l):
        if s[0] == "T":
            if l != 1:
                return z3.BoolVal(False)
            if s[1] not in self.vi:
                return z3.BoolVal(False)
            return self.toks[i] == self.vi[s[1]]
        return self._ne(s[1], i, l)

    def _ne(self, A, i, l):
        """A derives the non-empty span toks[i..i+l) (l >= 1)."""
        key = (A, i, l)
        r = self._d.get(key)
        if r is not None:
            return r
        alts = []
        if l == 1:
            for t in self.nf.term_rules.get(A, ()):
                if t in self.vi:
                    alts.append(self.toks[i] == self.vi[t])
        else:
            for (a, b) in self.nf.bin_rules.get(A, ()):
                for s in range(1, l):
                    if a[0] == "T" and s != 1:
                        continue
                    if b[0] == "T" and l - s != 1:
                        continue
                    x = self._sym(a, i, s)
                    if z3.is_false(x):
                        continue
                    y = self._sym(b, i + s, l - s)
                    if z3.is_false(y):
                        continue
                    alts.append(z3.And(x, y))
        r = z3.Or(alts) if alts else z3.BoolVal(False)
        r = z3.simplify(r) if not alts else r
        self._d[key] = r
        return r

    def derives(self, A, i, j):
        if i == j:
            return z3.BoolVal(A in self.nf.nullable)
        return self._ne(A, i, j - i)

    def sym_derives(self, s, i, j):
        if s[0] == "T":
            if j - i != 1 or s[1] not in self.vi:
                return z3.BoolVal(False)
            return self.toks[i] == self.vi[s[1]]
        return self.derives(s[1], i, j)

    def seq_derives(self, rhs, i, j):
        """rhs (tuple of syms) derives toks[i..j)."""
        rhs = tuple(rhs)
        key = (rhs, i, j)
        r = self._s.get(key)
        if r is not None:
            return r
        if len(rhs) == 0:
            r = z3.BoolVal(i == j)
        elif len(rhs) == 1:
            r = self.sym_derives(rhs[0], i, j)
        else:
            alts = []
            for m in range(i, j + 1):
                x = self.sym_derives(rhs[0], i, m)
                if z3.is_false(x):
                    continue
                y = self.seq_derives(rhs[1:], m, j)
                if z3.is_false(y):
                    continue
                alts.append(z3.And(x, y))
            r = z3.Or(alts) if alts else z3.BoolVal(False)
        self._s[key] = r
        return r

    def sentence(self, start=None):
        start = start or self.start
        alts = []
        for L in range(0, self.N + 1):
            d = self.derives(start, 0, L)
            if z3.is_false(d):
                continue
            alts.append(z3.And(self.n == L, d))
        return z3.Or(alts) if alts else z3.BoolVal(False)


def token_vars(N, nvocab, prefix="t"):
    toks = [z3.Int("%s%d" % (prefix, i)) for i in range(N)]
    n = z3.Int(prefix + "_len")
    dom = [z3.And(t >= 1, t <= nvocab) for t in toks]
    dom.append(z3.And(n >= 0, n <= N))
    return toks, n, dom


def model_tokens(m, toks, n):
    L = m.eval(n, model_completion=True).as_long()
    return [m.eval(toks[i], model_completion=True).as_long() for i in range(L)]


# ----------------------------------------------------------------------------- brute force (validation of the encoder)

def brute_language(prods, start, vocab_index, N):
    """All sentences (as tuples of token ids) of length <= N, by exhaustive CYK over all strings.
    Only for tiny |T|^N (validation of the SAT encoder)."""
    nf = NormalForm(prods)
    ids = sorted(set(vocab_index.values()))
    res = set()
    if start in nf.nullable:
        res.add(())
    for L in range(1, N + 1):
        for w in itertools.product(ids, repeat=L):
            if _cyk(nf, start, vocab_index, w):
                res.add(w)
    return res


def _cyk(nf, start, vi, w):
    L = len(w)
    tab = {}
    names = set(nf.term_rules) | set(nf.bin_rules)
    for i in range(L):
        tab[(i, 1)] = set(a for a in names if any(vi.get(t) == w[i] for t in nf.term_rules.get(a, ())))
    for l in range(2, L + 1):
        for i in range(0, L - l + 1):
            s = set()
            for a in names:
                for (x, y) in nf.bin_rules.get(a, ()):
                    ok = False
                    for sp in range(1, l):
                        lx = (x[0] == "T" and sp == 1 and vi.get(x[1]) == w[i]) or (x[0] == "N" and x[1] in tab[(i, sp)])
                        if not lx:
                            continue
                        ly = (y[0] == "T" and l - sp == 1 and vi.get(y[1]) == w[i + sp]) or (y[0] == "N" and y[1] in tab[(i + sp, l - sp)])
                        if ly:
                            ok = True
                            break
                    if ok:
                        s.add(a)
                        break
            tab[(i, l)] = s
    return start in tab[(0, L)]


def derives_brute(prods, start, vocab_index, w):
    nf = NormalForm(prods)
    if len(w) == 0:
        return start in nf.nullable
    return _cyk(nf, start, vocab_index, tuple(w))


def enumerate_sentences(prods, start, vocab_index, N, form_cap=None):
    """Independent of NormalForm: all sentences of length <= N by exhaustive leftmost derivation
    with pruning on the minimal yield length (used to validate the encoder on small grammars)."""
    by = {}
    for l, r in prods:
        by.setdefault(l, []).append(tuple(r))
    INF = 10 ** 9
    minlen = {a: INF for a in by}
    ch = True
    while ch:
        ch = False
        for l, alts in by.items():
            for r in alts:
                s = 0
                for x in r:
                    s += 1 if x[0] == "T" else minlen.get(x[1], INF)
                if s < minlen[l]:
                    minlen[l] = s
                    ch = True
    cap = form_cap or (2 * N + 6)
    res = set()
    seen = set()
    stack = [((), (("N", start),))]
    while stack:
        done, rest = stack.pop()
        # skip leading terminals
        k = 0
        while k < len(rest) and rest[k][0] == "T":
            k += 1
        done = done + tuple(rest[:k])
        rest = rest[k:]
        if len(done) > N:
            continue
        m = len(done) + sum(1 if x[0] == "T" else minlen.get(x[1], INF) for x in rest)
        if m > N or len(rest) > cap:
            continue
        if not rest:
            if all(x[1] in vocab_index for x in done):
                res.add(tuple(vocab_index[x[1]] for x in done))
            continue
        key = (done, rest)
        if key in seen:
            continue
        seen.add(key)
        A = rest[0][1]
        for r in by.get(A, ()):
            stack.append((done, r + rest[1:]))
    return res
