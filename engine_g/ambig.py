"""Bounded ambiguity of a context-free grammar as a z3 query (after Axelsson, Heljanko, Lange 2008):
is there a token string of length <= N with at least TWO different parse trees?

For every (symbol sequence, span) two Boolean terms are built over the token variables:
   ge1 = "at least one derivation tree",   ge2 = "at least two different derivation trees"
   sequence X beta over [i,j):  ge2 = exists split m: (ge2(X,i,m) and ge1(beta,m,j)) or (ge1(X,i,m) and ge2(beta,m,j))
                                      or two different splits m != m' that both work
   non-terminal A over [i,j):   ge2 = some production alpha with ge2(alpha,i,j), or two different
                                      productions that both have ge1
The terms are plain expression DAGs (no auxiliary variables), so sat/unsat is exact within N.
Requires a grammar without derivations A =>+ A (detected; such a grammar is reported as cyclic).
An ambiguous grammar is not LALR(1) (nor LL(k)): a table built for it without any reported conflict
means conflicts were resolved silently.
"""
import z3
from .cfg_sat import NormalForm


class Cyclic(Exception):
    pass


class Ambiguity:
    def __init__(self, prods, start, vocab_index, toks, n, N):
        self.by = {}
        for l, r in prods:
            self.by.setdefault(l, []).append(tuple(r))
        self.start, self.vi, self.toks, self.n, self.N = start, vocab_index, toks, n, N
        self._nt = {}
        self._seq = {}
        self._busy = set()
        self.nullable = NormalForm(prods).nullable
        self.F = z3.BoolVal(False)
        self.T = z3.BoolVal(True)

    def _or(self, xs):
        xs = [x for x in xs if not z3.is_false(x)]
        if not xs:
            return self.F
        return xs[0] if len(xs) == 1 else z3.Or(xs)

    def _and(self, *xs):
        if any(z3.is_false(x) for x in xs):
            return self.F
        xs = [x for x in xs if not z3.is_true(x)]
        if not xs:
            return self.T
        return xs[0] if len(xs) == 1 else z3.And(xs)

    def sym(self, s, i, j):
        if s[0] == "T":
            if j - i != 1 or s[1] not in self.vi:
                return self.F, self.F
            return self.toks[i] == self.vi[s[1]], self.F
        return self.nt(s[1], i, j)

    def nt(self, A, i, j):
        key = (A, i, j)
        r = self._nt.get(key)
        if r is not None:
            return r
        if key in self._busy:
            raise Cyclic("derivation %s =>+ %s over an unchanged span" % (A, A))
        self._busy.add(key)
        ones, twos = [], []
        for alpha in self.by.get(A, ()):
            g1, g2 = self.seq(alpha, i, j)
            ones.append(g1)
            twos.append(g2)
        pair = []
        live = [x for x in ones if not z3.is_false(x)]
        for a in range(len(live)):
            for b in range(a + 1, len(live)):
                pair.append(self._and(live[a], live[b]))
        r = (self._or(ones), self._or(twos + pair))
        self._busy.discard(key)
        self._nt[key] = r
        return r

    def seq(self, rhs, i, j):
        key = (rhs, i, j)
        r = self._seq.get(key)
        if r is not None:
            return r
        if len(rhs) == 0:
            r = (self.T if i == j else self.F, self.F)
        elif len(rhs) == 1:
            r = self.sym(rhs[0], i, j)
        else:
            ones, twos = [], []
            for m in range(i, j + 1):
                # empty spans are only possible for nullable parts: decided from the nullable set
                # BEFORE any recursive term is built (left- and right-recursive rules would otherwise
                # look like same-span cycles)
                if m == i and not (rhs[0][0] == "N" and rhs[0][1] in self.nullable):
                    continue
                if m == j and not all(x[0] == "N" and x[1] in self.nullable for x in rhs[1:]):
                    continue
                b1, b2 = self.seq(rhs[1:], m, j)
                if z3.is_false(b1):
                    continue
                a1, a2 = self.sym(rhs[0], i, m)
                if z3.is_false(a1):
                    continue
                ones.append(self._and(a1, b1))
                twos.append(self._or([self._and(a2, b1), self._and(a1, b2)]))
            pair = []
            for a in range(len(ones)):
                for b in range(a + 1, len(ones)):
                    pair.append(self._and(ones[a], ones[b]))
            r = (self._or(ones), self._or(twos + pair))
        self._seq[key] = r
        return r

    def ambiguous_sentence(self):
        alts = []
        for L in range(0, self.N + 1):
            g1, g2 = self.nt(self.start, 0, L)
            if not z3.is_false(g2):
                alts.append(z3.And(self.n == L, g2))
        return self._or(alts)


def count_trees(prods, start, w, vocab_index, cap=3):
    """Independent confirmation: number of parse trees of the concrete token list w (capped)."""
    by = {}
    for l, r in prods:
        by.setdefault(l, []).append(tuple(r))
    memo = {}
    busy = set()

    def nt(A, i, j):
        k = (A, i, j)
        if k in memo:
            return memo[k]
        if k in busy:
            return 0
        busy.add(k)
        c = 0
        for alpha in by.get(A, ()):
            c = min(cap, c + seq(alpha, i, j))
        busy.discard(k)
        memo[k] = c
        return c

    def sym(s, i, j):
        if s[0] == "T":
            return 1 if (j - i == 1 and vocab_index.get(s[1]) == w[i]) else 0
        return nt(s[1], i, j)

    def seq(rhs, i, j):
        if not rhs:
            return 1 if i == j else 0
        if len(rhs) == 1:
            return sym(rhs[0], i, j)
        c = 0
        for m in range(i, j + 1):
            a = sym(rhs[0], i, m)
            if a:
                c = min(cap, c + a * seq(rhs[1:], m, j))
        return c

    return nt(start, 0, len(w))
