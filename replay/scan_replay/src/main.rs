// generated per replay batch by lib/scanreplay.py
