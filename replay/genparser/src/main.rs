//! Native replay driver: runs the parser that the real `parol` generated for a grammar on an
//! input text and prints the verdict, the semantic-action trace and the parse-tree events.
//! usage: genparser <input-file>
#![allow(dead_code, unused_imports, clippy::all)]
mod g;
mod g_trait;
mod parser;

use parol_runtime::parser::parse_tree_type::TreeConstruct;
use parol_runtime::{ParolError, Token};

/// Records the tree-building calls of the parser.
struct Recorder {
    ev: Vec<String>,
}
impl<'t> TreeConstruct<'t> for Recorder {
    type Error = ParolError;
    type Tree = Vec<String>;
    fn open_non_terminal(&mut self, name: &'static str, _size_hint: Option<usize>) -> Result<(), Self::Error> {
        self.ev.push(format!("TREE O {name}"));
        Ok(())
    }
    fn close_non_terminal(&mut self) -> Result<(), Self::Error> {
        self.ev.push("TREE C".to_string());
        Ok(())
    }
    fn add_token(&mut self, token: &Token<'t>) -> Result<(), Self::Error> {
        self.ev.push(format!(
            "TREE T {} {} {} {} {} {} {} {:?}",
            token.token_type, token.location.start, token.location.end, token.location.start_line, token.location.start_column,
            token.location.end_line, token.location.end_column, token.text()
        ));
        Ok(())
    }
    fn build(self) -> Result<Self::Tree, Self::Error> {
        Ok(self.ev)
    }
}

fn main() {
    let path = std::env::args().nth(1).expect("input file");
    let input = std::fs::read_to_string(&path).expect("readable input");
    let mut user = g::G::new();
    let mut rec = Recorder { ev: Vec::new() };
    let r = std::panic::catch_unwind(std::panic::AssertUnwindSafe(|| parser::parse_into(&input, &mut rec, &path, &mut user)));
    for l in &user.log {
        println!("{l}");
    }
    for l in &rec.ev {
        println!("{l}");
    }
    match r {
        Err(_) => println!("VERDICT PANIC"),
        Ok(Ok(_)) => println!("VERDICT ACCEPT"),
        Ok(Err(e)) => {
            let s = format!("{e:?}");
            println!("VERDICT REJECT {}", s.lines().next().unwrap_or("").chars().take(200).collect::<String>());
        }
    }
}
