//! Native replay driver: runs the parser that the real `parol` generated for a grammar on an
//! input text and prints the verdict and the semantic-action trace.
//! usage: genparser <input-file>
#![allow(dead_code, unused_imports, clippy::all)]
mod g;
mod g_trait;
mod parser;

fn main() {
    let path = std::env::args().nth(1).expect("input file");
    let input = std::fs::read_to_string(&path).expect("readable input");
    let mut user = g::G::new();
    let r = parser::parse(&input, &path, &mut user);
    for l in &user.log {
        println!("{l}");
    }
    match r {
        Ok(_) => println!("VERDICT ACCEPT"),
        Err(e) => {
            let s = format!("{e:?}");
            println!("VERDICT REJECT {}", s.lines().next().unwrap_or("").chars().take(160).collect::<String>());
        }
    }
}
