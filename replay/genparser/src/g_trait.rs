use crate::g::G;
use parol_runtime::parser::parse_tree_type::ParseTreeType;
use parol_runtime::{Result, Token, UserActionsTrait};

/// Stand-in for the generated adapter: records every semantic action and comment callback.
pub struct GAuto<'t, 'u> {
    user: &'u mut G<'t>,
}
impl<'t, 'u> GAuto<'t, 'u> {
    pub fn new(user: &'u mut G<'t>) -> Self {
        GAuto { user }
    }
}
impl<'t> UserActionsTrait<'t> for GAuto<'t, '_> {
    fn call_semantic_action_for_production_number(&mut self, prod_num: usize, children: &[ParseTreeType<'t>]) -> Result<()> {
        let kids: Vec<String> = children
            .iter()
            .map(|c| match c {
                ParseTreeType::T(t) => format!("T{}:{:?}", t.token_type, t.text()),
                ParseTreeType::N(n) => format!("N:{n}"),
            })
            .collect();
        self.user.log.push(format!("ACTION {prod_num} [{}]", kids.join(" ")));
        Ok(())
    }
    fn on_comment(&mut self, token: Token<'t>) {
        self.user.log.push(format!("COMMENT {:?}", token.text()));
    }
}
