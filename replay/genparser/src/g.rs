/// Stand-in for the user's grammar type: records what the parser reports.
pub struct G<'t> {
    pub log: Vec<String>,
    _p: core::marker::PhantomData<&'t str>,
}
impl<'t> G<'t> {
    pub fn new() -> Self {
        G { log: Vec::new(), _p: core::marker::PhantomData }
    }
}
