//! Native replay of C08 counterexamples: runs the real `LookaheadDFA::eval` on a real
//! `TokenStream` (real scnr2 scanner) and prints the prediction.
//! usage: eval_replay <k> <stream_k> <prod0> <ntrans> (<from> <term> <to> <prod>)* <ntok> <tok>*
//! terminals: 0 = EOI (only as trailing padding), 5..=30 = letters a..z
use parol_runtime::{LookaheadDFA, TokenStream, Trans};
use scnr2::scanner;

scanner!(
    ReplayScanner {
        mode INITIAL {
            token r"\r\n|\r|\n" => 1;
            token r"[\s--\r\n]+" => 2;
            token r"a" => 5; token r"b" => 6; token r"c" => 7; token r"d" => 8; token r"e" => 9;
            token r"f" => 10; token r"g" => 11; token r"h" => 12; token r"i" => 13; token r"j" => 14;
            token r"k" => 15; token r"l" => 16; token r"m" => 17; token r"n" => 18; token r"o" => 19;
            token r"p" => 20; token r"q" => 21; token r"r" => 22; token r"s" => 23; token r"t" => 24;
            token r"u" => 25; token r"v" => 26; token r"w" => 27; token r"x" => 28; token r"y" => 29;
            token r"z" => 30;
            token r"." => 31;
        }
    }
);

fn main() {
    let a: Vec<i64> = std::env::args().skip(1).map(|s| s.parse().unwrap()).collect();
    let mut it = a.into_iter();
    let k = it.next().unwrap() as usize;
    let stream_k = it.next().unwrap() as usize;
    let prod0 = it.next().unwrap() as i32;
    let nt = it.next().unwrap() as usize;
    let mut trans = Vec::new();
    for _ in 0..nt {
        let f = it.next().unwrap() as usize;
        let t = it.next().unwrap() as u16;
        let to = it.next().unwrap() as usize;
        let p = it.next().unwrap() as i32;
        trans.push(Trans(f, t, to, p));
    }
    let ntok = it.next().unwrap() as usize;
    let mut text = String::new();
    for _ in 0..ntok {
        let t = it.next().unwrap() as u16;
        assert!((5..=30).contains(&t));
        text.push((b'a' + (t - 5) as u8) as char);
        text.push(' ');
    }
    let trans: &'static [Trans] = Box::leak(trans.into_boxed_slice());
    let dfa = LookaheadDFA::new(prod0, trans, k);
    let scanner = replay_scanner::ReplayScanner::new();
    let text: &'static str = Box::leak(text.into_boxed_str());
    let mut ts = TokenStream::new(
        text,
        "replay",
        scanner.scanner_impl.clone(),
        &replay_scanner::ReplayScanner::match_function,
        stream_k,
    )
    .unwrap();
    match dfa.eval(&mut ts, 0) {
        Ok(p) => println!("RESULT Ok {p}"),
        Err(_) => println!("RESULT Err"),
    }
}
